#!/usr/bin/env python3
"""Regenerates /verif/MANIFEST.json. IMPLEMENTED lists the checks that exist; every other property is
listed under not_applicable with its reason."""
import json, os

IMPLEMENTED = ["C05"]

NA = {
 "C01": "pure function of (seed, position): 'output equals the published reference for every seed and position' has no schedule, clock, fault or history to explore; deterministic simulation would only be input sampling against a re-implementation (needs bit-vector proof / induction, a different technique). See DESIGN.md section 5.",
 "C02": "pure function of the 32-byte seed and position (HC-128 keystream vs the eSTREAM reference): nothing for a simulator to schedule or fault. See DESIGN.md section 5.",
 "C03": "pure function of seed and position (ISAAC / ISAAC-64 vs Jenkins' reference): no nondeterminism seam is involved. See DESIGN.md section 5.",
 "C04": "pure function of seed and position (xorshift128 vs Marsaglia's recurrence): no nondeterminism seam is involved. See DESIGN.md section 5.",
 "C06": "jump()/long_jump() = 2^64..2^384 steps: cannot be executed, and every executable consequence (commuting with stepping / with long_jump) holds for ANY polynomial in the transition matrix, so simulation cannot tell a wrong jump polynomial from the right one; needs GF(2) polynomial algebra. See DESIGN.md section 5.",
 "C07": "full period 2^n-1 is primitivity of a characteristic polynomial over GF(2); not observable by running any schedule/fault sequence. See DESIGN.md section 5.",
 "C15": "bijectivity of JitterRng's pool mixing over all 2^64 (x 2^64) inputs is a GF(2) rank argument; no clock, schedule or fault is involved, so it is not a simulation target (the cfg hook the property mentions is therefore not added). See DESIGN.md section 5.",
}
PENDING = "check not built yet in this revision of /verif (planned in DESIGN.md section 3; will be claimed when its scenario exists)"

CHECKS = {
 "C05": dict(cat="exploration", ref="3/C05", technique="deterministic simulation: seeded search over operation histories, twin-stream reference model",
   text="Seeded exploration of operation histories (next_u32/next_u64/fill_bytes(n), every buffer index and half flag as start state, lengths around every refill boundary) on all 20 generator types; every returned value and byte is compared with the projection table of the statement applied to the word stream of an identically seeded twin driven by native-width calls only, plus a 2-block drain that proves nothing was skipped or repeated. Sampled histories: evidence, not proof; the space (all interleavings x all n x all seeds) is unbounded, so exploration is the honest level.",
   note="Trusts the harness model (projection table transcribed from the statement), the twin's native-width stream as definition of W, rustc/cargo. JitterRng runs over the simulated clock."),
}

def main():
    checks = []
    for pid in IMPLEMENTED:
        c = CHECKS[pid]
        checks.append({
            "property_id": pid,
            "quick_cmd": "./check %s quick" % pid,
            "thorough_cmd": "./check %s thorough" % pid,
            "evidence_file": "/verif/evidence/%s.json" % pid,
            "replay_cmd_template": "./check %s --replay {path}" % pid,
            "engine": "rngsim",
            "level_claimed": {"category": c["cat"], "text": c["text"], "design_ref": "DESIGN.md section " + c["ref"]},
            "level_note": c["note"],
            "technique": c["technique"],
        })
    na = [{"property_id": k, "reason": v} for k, v in sorted(NA.items())]
    for pid in sorted(CHECKS.keys() | {"C08","C09","C10","C11","C12","C13","C14","C16","C17","C18","C19"}):
        if pid not in IMPLEMENTED:
            na.append({"property_id": pid, "reason": PENDING})
    m = {
        "version": 1,
        "setup_cmd": "./check setup",
        "hooks": {
            "guard": "rngs_verif",
            "enable": "no source hook is needed: every seam already exists (timer closure, source RNG trait parameter, serde feature, public constructors); checks build /repo's crates as path dependencies of /verif/sim with features serde (and std for C19)",
            "baseline_off_cmd": "cd /repo && cargo test --workspace --no-fail-fast --offline",
            "source_commits": [],
            "add_only": True,
        },
        "engines": [{
            "name": "rngsim", "path": "/verif/sim", "serves_properties": IMPLEMENTED,
            "kind_free_text": "deterministic simulator: one integer (VERIF_SEED) decides every generated operation, clock reading, source byte, fault and interleaving; explicit RunSpec executor, reference-model oracles, delta-debugging minimiser, replay files, process-parallel workers",
        }],
        "checks": checks,
        "not_applicable": sorted(na, key=lambda x: x["property_id"]),
        "notes": "Technique family: deterministic simulation with fault injection. See DESIGN.md. Known findings / fixed defects: KNOWN_FINDINGS.txt.",
    }
    p = os.path.join(os.path.dirname(os.path.dirname(os.path.abspath(__file__))), "MANIFEST.json")
    json.dump(m, open(p, "w"), indent=1)
    print("wrote", p, "claimed:", IMPLEMENTED)

main()
