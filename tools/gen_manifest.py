#!/usr/bin/env python3
"""Regenerates /verif/MANIFEST.json. IMPLEMENTED lists the checks that exist; every other property is
listed under not_applicable with its reason."""
import json, os

IMPLEMENTED = ["C05", "C08", "C09", "C10", "C11", "C12", "C13", "C14", "C16", "C17", "C18", "C19"]

NA = {
 "C01": "pure function of (seed, position): 'output equals the published reference for every seed and position' has no schedule, clock, fault or history to explore; deterministic simulation would only be input sampling against a re-implementation (needs bit-vector proof / induction, a different technique). See DESIGN.md section 5.",
 "C02": "pure function of the 32-byte seed and position (HC-128 keystream vs the eSTREAM reference): nothing for a simulator to schedule or fault. See DESIGN.md section 5.",
 "C03": "pure function of seed and position (ISAAC / ISAAC-64 vs Jenkins' reference): no nondeterminism seam is involved. See DESIGN.md section 5.",
 "C04": "pure function of seed and position (xorshift128 vs Marsaglia's recurrence): no nondeterminism seam is involved. See DESIGN.md section 5.",
 "C06": "jump()/long_jump() = 2^64..2^384 steps: cannot be executed, and every executable consequence (commuting with stepping / with long_jump) holds for ANY polynomial in the transition matrix, so simulation cannot tell a wrong jump polynomial from the right one; needs GF(2) polynomial algebra. See DESIGN.md section 5.",
 "C07": "full period 2^n-1 is primitivity of a characteristic polynomial over GF(2); not observable by running any schedule/fault sequence. See DESIGN.md section 5.",
 "C15": "bijectivity of JitterRng's pool mixing over all 2^64 (x 2^64) inputs is a GF(2) rank argument; no clock, schedule or fault is involved, so it is not a simulation target (the cfg hook the property mentions is therefore not added). See DESIGN.md section 5.",
}
PENDING = "check not built yet in this revision of /verif (planned in DESIGN.md section 3; will be claimed when its scenario exists)"

CHECKS = {
 "C05": dict(cat="exploration", ref="3/C05", technique="deterministic simulation: seeded search over operation histories, twin-stream reference model",
   text="Seeded exploration of operation histories (next_u32/next_u64/fill_bytes(n), every buffer index and half flag as start state, lengths around every refill boundary) on all 20 generator types; every returned value and byte is compared with the projection table of the statement applied to the word stream of an identically seeded twin driven by native-width calls only, plus a 2-block drain that proves nothing was skipped or repeated. Sampled histories: evidence, not proof; the space (all interleavings x all n x all seeds) is unbounded, so exploration is the honest level.",
   note="Trusts the harness model (projection table transcribed from the statement), the twin's native-width stream as definition of W, rustc/cargo. JitterRng runs over the simulated clock."),
"C08": dict(cat="exploration", ref="3/C08", technique="deterministic simulation: seeded search over seeding routes with a stuck-at-zero source-RNG fault (SimSource), documented-replacement oracle",
   text="Seeded exploration of every seeding route (from_seed, seed_from_u64, from_rng, try_from_rng) of the 14 linear xoshiro-family types and XorShiftRng, with the source-RNG seam injecting k=0..3 leading all-zero blocks and sparse blocks; oracles: state image never all-zero and outputs not all zero, zero seed == documented replacement (== and probe history), exact source consumption (1 block remapped / k+1 blocks redrawn), non-zero seeds verbatim and pairwise distinct. The seed space cannot be enumerated; the zero/sparse structure that matters is targeted directly, the rest sampled.",
   note="Trusts: bincode image of these plain-data structs = state words (LE); the documented replacement values; harness SimSource."),
 "C09": dict(cat="fault_enumeration", ref="3/C09", technique="deterministic simulation with fault injection: every failure position of a fallible source RNG enumerated (clean error and torn fill), route-agreement and expansion-model oracles",
   text="Per sampled source stream and type (19 seedable types) the space of fault positions is enumerated completely: error at call c for every needed call (+1 beyond), torn fill after j bytes for every j (8..64 positions, 1024/2048 for ISAAC): Err carrying the injected token before the last needed byte, Ok == from_rng after it. Fault-free: from_rng == try_from_rng == from_seed(bytes delivered), exact source accounting, ISAAC state image == harness randinit model (two passes), seed_from_u64 == documented expansion (SplitMix64 stream / PCG32 model / randinit one pass). Streams and u64 arguments are sampled, fault positions are not.",
   note="Trusts the harness models (PCG32, randinit) written from rand_core's/Jenkins' documentation, the repository's SplitMix64 as the 'SplitMix64 stream', bincode image layout of the ISAAC cores."),
 "C10": dict(cat="exploration", ref="3/C10", technique="deterministic simulation: fork (clone) at arbitrary history points, lock-step twin execution, bit flips in stored state to manufacture near-equal pairs",
   text="Seeded exploration: clone() at arbitrary points of a history (mid-block, half pending) then lock-step suffixes incl. jump/long_jump with == re-checked after every op; converse direction on manufactured pairs (one side advanced by different call shapes; one flipped bit in the stored image of a core or non-buffered generator; cores after k extra generate() calls): whenever == says equal the futures must be identical; Hc128Rng at different read positions of one block must be unequal; IsaacArray == on single-element differences.",
   note="'Identical futures' is decided by a finite probe suffix plus a two-block drain. Bit flips never touch BlockRng's own index/half_used (dependency code)."),
 "C11": dict(cat="fault_enumeration", ref="3/C11", technique="deterministic simulation with crash/restart fault injection: snapshot crash point enumerated after every operation, restored copy vs uninterrupted twin",
   text="Crash/restart where only the serde snapshot survives: for each sampled history (18 serialisable types, bincode and serde_json) the crash point is enumerated after the pre-advance and after EVERY operation; the never-serialised twin, the original and each restored copy must agree on the whole remaining history plus a 2-block drain, restored == original; destructive crash points give restores of restores. Plus complete sweeps of the durable buffer states of IsaacRng (every index) and Isaac64Rng (every index x half_used). Histories/seeds sampled, crash points and buffer states enumerated.",
   note="Trusts bincode / serde_json / rand_core's BlockRng serde impls as part of the system under test (they run real code); corrupted images are out of scope."),
 "C12": dict(cat="exploration", ref="3/C12", technique="deterministic simulation: JitterRng over a simulated clock (scripted readings, clock faults: stalls, backward steps, +-2^31 / 2^32 jumps, wrap-around), independent executable reference model compared on outputs and timer-read counts",
   text="The clock is the only nondeterminism JitterRng has; it is replaced by SimClock and every reading, delta and clock fault comes from the run's PRNG. After every operation (next_u32/next_u64/fill_bytes/timer_stats/set_rounds/clone, rounds 1..=255) the output AND the cumulative number of timer readings are compared with an independent model of the documented Jitterentropy 2.1.0 procedure run on the same readings; bounded liveness: an operation that reads more than the model + 64 is aborted and reported. All u64 reading sequences cannot be enumerated; fault kinds are placed inside collections and counted.",
   note="Trusts the harness model (LFSR taps, stuck test, rotation, stir) written from the crate documentation / statement; scripts that stay stuck >60000 readings are discarded."),
 "C13": dict(cat="exploration", ref="3/C13", technique="deterministic simulation: test_timer over scripted clocks aimed at every failure class and every table/log2 boundary of the mean; failure predicates recomputed from the consumed clock trace",
   text="Clock scripts for the 1+4*400 readings are generated per target class (mean sweeps incl. 0..17 and 2^k-1/2^k/2^k+1, delta_sum on k*300-1/k*300/k*300+1, zero readings, zero truncated deltas, 2..5 backward probes, 268..273 multiples of 100, 265..275 stuck probes, mixtures near +-2^31, generic hostile). The oracle recomputes the documented predicates from the readings consumed: Ok(r) only if none holds, 1<=r<=128, r*bitlen(mean)>=128, set_rounds(r) does not panic; Err(e) only if e's predicate holds on the consumed prefix.",
   note="Assumes the documented reading layout of test_timer (4 readings per probe, 100 warm-up probes) and mean<2 as 'credits zero bits'. No precedence among simultaneously true errors is demanded."),
 "C14": dict(cat="exploration", ref="3/C14", technique="deterministic simulation with fault injection under a catch_unwind invariant monitor in an overflow-checked build (hostile clocks, source faults, crash/restore, long histories)",
   text="Every call into the crates runs under catch_unwind in a build with overflow-checks and debug-assertions on; a panic that is not the simulator's own clock-abort token is a violation keyed by panic site. Workloads: the generators of all other scenarios plus hostile mixes (all-0/all-FF seeds, u64 edges, every source fault, fill lengths 0..3 blocks+7, 220-op histories, jumps, serde round trips; JitterRng with +-2^31 / 2^32 jumps, backward steps, pauses and wrap-around placed densely, test_timer followed by set_rounds(result)).",
   note="A JitterRng call that does not return within 60000 further readings is aborted by the simulated clock and discarded (documented behaviour). set_rounds(0) (the one documented panic) is issued, contained and followed by further use. Damaged snapshots: only \"deserialising does not panic\" is demanded."),
 "C16": dict(cat="exploration", ref="3/C16", technique="deterministic simulation: JitterRng over a simulated clock with per-call timer-read counting, lock-step twin driven with fresh-collection calls only, forked clocks for clones",
   text="Per call, from the simulated clock's read counter: second of two consecutive next_u32 reads 0 times and the pair equals the twin's next_u64; every other output call reads >= rounds times per 64-bit value and equals the twin's value (pending half discarded, never re-served); a clone's first output reads its own forked clock >= rounds times and equals the twin clone's; the original still serves its half afterwards. Independent of what a collection computes (C12).",
   note="fill_bytes(0) / fill_bytes(1..=4) with a half pending: both taking the half (0 reads) and discarding it are accepted (documented composition; no bit is handed out twice). timer_stats between two next_u32 is skipped."),
 "C17": dict(cat="exploration", ref="3/C17", technique="deterministic simulation: two-run non-interference (twin runs differing only in the secret seed / clock script, same public operation history)",
   text="Twin generators with different secrets and the same public history: {:?} and {:#?} must be byte-equal after construction and after every operation, and no numeric token of the text may equal a state word, buffered/next output word or just-returned value >= 100000. Covers XorShiftRng, Hc128Rng/Hc128Core, IsaacRng/IsaacCore, Isaac64Rng/Isaac64Core (also through a harness-built BlockRng), JitterRng.",
   note="Words below 100000 are not searched for (chance hits on index/result_len)."),
 "C18": dict(cat="exploration", ref="3/C18", technique="deterministic simulation replay across build configurations: one seeded corpus of simulated histories (incl. scripted-clock JitterRng), per-run digests compared between 5 (quick) / 12 (thorough) builds",
   text="The simulator's replay-determinism check pointed at the build configuration: the same seed-derived corpus (19 deterministic types, all routes, jumps, clones; JitterRng over hostile scripted clocks; every op under catch_unwind, panics recorded as markers) is executed by the harness built from the current tree in {opt 0,3} x {overflow-checks+debug-assertions on,off} x {serde on,off}; any per-run digest difference is a violation; the replay file names the run and configurations and is cut after the first differing operation.",
   note="x86-64 Linux only. The harness's own generation code uses wrapping arithmetic only; a harness panic is exit 2, not a violation."),
 "C19": dict(cat="exploration", ref="3/C19", technique="deterministic simulation of schedules: seeded scheduler decides which generator instance advances next and on which OS thread (baton passing), fresh-process alone baselines; compile-time Send/Sync table",
   text="Static: Send/Sync of all generator types by const shadowing. Dynamic: 2..6 instances (mixed types, duplicate and near-equal seeds, JitterRng over own scripted clocks) and 1..4 real OS threads; the seeded scheduler moves ownership of one instance to one thread for exactly one operation at a time (replayable), with migrations and disturbances (unrelated generators, zero-seed remap, JitterRng::new() touching JITTER_ROUNDS); instances are constructed lazily inside the schedule. Per-instance outputs must equal those of the instance alone in a fresh process and under sequential / reverse-sequential composition.",
   note="Operation-granularity interleavings; sub-operation overlap between threads is explored by the Miri part of the same commands; same-thread re-entrancy through the timer callback by the nested variant. JitterRng::new() reads the real clock and is only a disturbance whose results are never compared."),
}

# what was added after the first version of each check (kept separate so the original texts stay readable)
SUFFIX = {
 "C05": " Also repeated in a build with -C target-cpu=native; one run in four uses trait-qualified (generic) call sites; giant requests (2^31 / 2^32 + k bytes into an aliased 4 GiB window); other-targets pass: Miri interprets a history program for s390x (big-endian), i686 (32-bit), aarch64 and (thorough) mips, x86_64-windows, aarch64-macOS, digests must equal the host's; word hunts (2^28 HC-128 / ISAAC words searched for zero, all-ones and repeated words, short calls made right there).",
 "C08": " Repeated in a build with --cfg fuzzing; runs are also executed on fresh threads and once more from a thread-local destructor while the thread exits.",
 "C09": " Repeated in a build with --cfg fuzzing; zero-sized source error types, zero-sized source types (handles), long zero-block runs.",
 "C10": " == is probed per type and also evaluated on copies at different addresses/alignments; != next to ==; skew pairs that hand out the same number of bytes through different numbers of words; birthday search over all pairs of 4096 unrelated HC-128 generators per run.",
 "C11": " Thirteen ways of writing/reading the image: slice, framed inside a larger document, short-read readers, serde_json::Value, TOML, serde(flatten) / tagged / untagged embeddings, bincode options (varint, big-endian), a non-human-readable self-describing format that honours declared sequence lengths like a length-prefixed format (direct / flatten / tagged / untagged); far-along counter states.",
 "C12": " Also: long-haul histories (2^16 collections), contained set_rounds(0), nested use from inside another generator's timer callback, process history (real-clock JitterRng::new() first), wall-clock seam (real clock flying while the code runs), calendar-date seam (the real-clock constructor runs in 1970, 2038, 2106, 2262, 2554 ...), readings pinned to special values.",
 "C13": " Also steps back between probes, near-constant timers with tolerated steps, up to 300 backward probes, readings pinned to special values (all ones, sign boundaries).",
 "C14": " Also damaged snapshots (must fail, not panic; arrays replaced by strings with multi-byte characters among the damage kinds), runs repeated from a thread-local destructor at thread exit, the calendar-date seam, a logger that refuses the crates' targets, seeding sweeps, contained set_rounds(0), Debug while unwinding / on another thread, far-along ISAAC counters, every second worker with an unwritable stderr (/dev/full), an extra build with rand_jitter std-without-log, and a Miri part: single-threaded histories of all 20 types interpreted by Miri (undefined behaviour that does not panic).",
 "C16": " Histories also contain timer_stats / test_timer / contained set_rounds(0), 2^16-collection long hauls, and the wall-clock seam.",
 "C17": " HC-128 marathons (2^27 words per twin). Texts under every formatter flag, also while unwinding / on another thread, after non-output operations; extra passes: build with --cfg fuzzing, every ALL_CAPS token of the compiled crates set as environment variable, and every ALL_CAPS string literal of their sources set in the environment of an extra BUILD; core runs prime the results buffers with public content before generate(); block marathons compare the text after every generate(); seeding sweeps compare the texts of 2^16 never-used generators per run.",
 "C18": " Configurations include -C target-cpu=native and (thorough) opt-level 1 / s with overflow checks and debug assertions split; seeding sweeps and frozen-clock histories in the corpus; other-targets pass as in C05; the real-clock constructor (on shifted calendar dates) as first step of corpus histories.",
 "C19": " Also clones of JitterRng inside schedules, near-equal and quantised private clocks, same-thread nesting through the timer callback, public block cores driven through one shared scratch block, schedules under a logger that accepts everything, a census family (2^16 collections in one process), the real-clock constructor as an instance (did it succeed), and timer callbacks that unwind inside one instance's operation.",
}


def main():
    checks = []
    for pid in IMPLEMENTED:
        c = dict(CHECKS[pid])
        c["text"] = c["text"] + SUFFIX.get(pid, "")
        checks.append({
            "property_id": pid,
            "quick_cmd": "./check %s quick" % pid,
            "thorough_cmd": "./check %s thorough" % pid,
            "evidence_file": "/verif/evidence/%s.json" % pid,
            "replay_cmd_template": "./check %s --replay {path}" % pid,
            "engine": "rngsim",
            "level_claimed": {"category": c["cat"], "text": c["text"], "design_ref": "DESIGN.md section " + c["ref"]},
            "level_note": c["note"],
            "technique": c["technique"],
        })
    na = [{"property_id": k, "reason": v} for k, v in sorted(NA.items())]
    for pid in sorted(CHECKS.keys() | {"C08","C09","C10","C11","C12","C13","C14","C16","C17","C18","C19"}):
        if pid not in IMPLEMENTED:
            na.append({"property_id": pid, "reason": PENDING})
    m = {
        "version": 1,
        "setup_cmd": "./check setup",
        "hooks": {
            "guard": "rngs_verif",
            "enable": "no source hook is needed: every seam already exists (timer closure, source RNG trait parameter, serde feature, public constructors); checks build /repo's crates as path dependencies of /verif/sim with features serde, std and log; the wall-clock shim (/verif/shim/clockshim.c, LD_PRELOAD for simulator processes only) interposes clock_gettime and touches nothing in /repo",
            "baseline_off_cmd": "cd /repo && cargo test --workspace --no-fail-fast --offline",
            "source_commits": [],
            "add_only": True,
        },
        "engines": [{
            "name": "rngsim", "path": "/verif/sim", "serves_properties": IMPLEMENTED,
            "kind_free_text": "deterministic simulator: one integer (VERIF_SEED) decides every generated operation, clock reading, source byte, fault and interleaving; explicit RunSpec executor, reference-model oracles, delta-debugging minimiser, replay files, process-parallel workers",
        }],
        "checks": checks,
        "not_applicable": sorted(na, key=lambda x: x["property_id"]),
        "notes": "Technique family: deterministic simulation with fault injection. See DESIGN.md. Known findings / fixed defects: KNOWN_FINDINGS.txt.",
    }
    p = os.path.join(os.path.dirname(os.path.dirname(os.path.abspath(__file__))), "MANIFEST.json")
    json.dump(m, open(p, "w"), indent=1)
    print("wrote", p, "claimed:", IMPLEMENTED)

main()
