#!/bin/bash
# tools/triage_seed.sh <name e.g. C09-a> <crate> <testname> [cargo feature args...]
# Confirms a sub-agent's seeded change in a scratch worktree (outside /repo and /verif):
#   suite passes with the change, demo fails with it and passes without it.
# Then stores it under /verif/seeded/<name>/ (patch.diff, demo.rs) and prints the verdicts.
set -u
NAME=$1; CRATE=$2; TEST=$3; shift 3; FEAT="$@"
SRC=/tmp/seed/$NAME/OUT
T=/tmp/triage-$NAME
rm -rf $T; git -C /repo worktree prune; git -C /repo worktree add -q --detach $T HEAD || exit 2
export CARGO_TARGET_DIR=/tmp/triage-target CARGO_NET_OFFLINE=true
cd $T
# EXTRA_DIFF: a test-only change the demonstration needs (e.g. a dev-dependency), kept on both sides
if [ -n "${EXTRA_DIFF:-}" ]; then git apply $SRC/$EXTRA_DIFF || { echo "EXTRA DIFF DOES NOT APPLY"; exit 2; }; fi
git apply $SRC/patch.diff || { echo "PATCH DOES NOT APPLY"; exit 2; }
suite=$(cargo test --workspace --no-fail-fast --offline 2>&1 | grep -E "^test result" | grep -vc " 0 failed" )
nres=$(cargo test --workspace --no-fail-fast --offline 2>&1 | grep -cE "^test result")
mkdir -p $CRATE/tests; cp $SRC/demo.rs $CRATE/tests/$TEST.rs
cargo test -p $CRATE $FEAT --test $TEST --offline >/tmp/triage-$NAME.with.log 2>&1; with=$?
git apply -R $SRC/patch.diff
cargo test -p $CRATE $FEAT --test $TEST --offline >/tmp/triage-$NAME.without.log 2>&1; without=$?
echo "TRIAGE $NAME: suite_failing_results=$suite (of $nres) demo_with_change_exit=$with demo_without_change_exit=$without"
cd /; git -C /repo worktree remove --force $T
if [ "$suite" = "0" ] && [ $with -ne 0 ] && [ $without -eq 0 ]; then
  mkdir -p /verif/seeded/$NAME; cp $SRC/patch.diff $SRC/demo.rs /verif/seeded/$NAME/; cp $SRC/NOTES.md /verif/seeded/$NAME/NOTES.agent.md 2>/dev/null
  echo "$CRATE $TEST $FEAT${RUSTFLAGS:+ RUSTFLAGS=$RUSTFLAGS}${EXTRA_DIFF:+ EXTRA_DIFF=$EXTRA_DIFF}" > /verif/seeded/$NAME/demo_cmd.txt
  if [ -n "${EXTRA_DIFF:-}" ]; then cp $SRC/$EXTRA_DIFF /verif/seeded/$NAME/; fi
  echo "CONFIRMED $NAME"
else
  echo "NOT CONFIRMED $NAME"; tail -5 /tmp/triage-$NAME.with.log /tmp/triage-$NAME.without.log
fi
