#!/usr/bin/env python3
"""tools/next_round_prompts.py <prev letter> <new letter>
Builds the prompts of the next sub-agent seeding round under /tmp/seed/<ID>-<new>.full.txt from the previous
round's prompts: same text (property statement + task), new worktree name, and the TAKEN list regenerated from every
seeded/<ID>-*/meta.json (what the change was / what it needs to manifest). Nothing else from /verif enters a prompt."""
import sys, json, glob, re, subprocess, os
prev, new = sys.argv[1], sys.argv[2]
# what a well-equipped tester already does, in general terms (no detail of /verif)
CAPS = ("and who already tests with unusual and algebraically structured inputs, inputs SOLVED from the algorithm's linear "
        "structure (crafted timer deltas and seeds that produce chosen values, zero words, fixed points), very long histories "
        "(more than 2^16 operations or values from one instance), manufactured states, misaligned buffers, objects placed at "
        "different addresses and alignments, every build profile, cargo feature, common rustc cfg and target-cpu=native, an "
        "installed logger, code running while the thread unwinds or on other threads, earlier activity of other instances in the "
        "same process (including real-clock JitterRng::new()), generic and concrete-type call sites, used, cloned, copied and "
        "deserialised objects (through slices, readers with short reads, serde_json::Value, snapshots embedded in larger "
        "documents, damaged snapshots), several threads and several processes, every environment variable whose name occurs in the "
        "compiled library set, documented panics (set_rounds(0)) that the caller contains before going on, trait implementations "
        "that did not exist before (probed at compile time), thousands of consecutive seedings, timers that count in steps, a timer "
        "callback that itself uses another generator (same-thread re-entrancy), a REAL clock (std Instant/SystemTime) that jumps by "
        "milliseconds to hours between readings, signed-integer formats such as TOML, non-output calls (timer_stats, test_timer, "
        "set_rounds, clone, ==, serialisation) mixed into every history, single requests of more than 2^32 bytes, timers frozen for "
        "millions of readings that then resume, states far along in the stream (block counters near 2^24, 2^32, 2^56, 2^64), "
        "gigabytes of output from one instance, sources that deliver a short key followed by zeros, constructions that fail half way, "
        "runs on freshly spawned threads, other targets (big-endian s390x / mips and 32-bit i686, interpreted by Miri, which also "
        "reports undefined behaviour), an unwritable stderr, every cargo feature combination, values solved to satisfy relations "
        "(equal halves, pool == 0 after test_timer), families of same-state siblings doing jump() / long_jump(), fork() in the middle "
        "of a history, sources whose error type is zero-sized, generators embedded with serde(flatten) / tagged / untagged enums, "
        "twins at the same buffer index in different blocks, every probe of test_timer stuck or backward, newly added Default impls, "
        "timer readings equal to the previous output, real threads racing through the seeding code, operations that hang or kill "
        "the process, histories whose snapshots are restored twice, timer readings pinned to special VALUES (all ones, sign boundaries, powers of two), hundreds of backward probes in one timer test, operations executed from a thread-local destructor while their thread exits, the != operator next to ==, the system's calendar date set to 1970, 2038, 2106, 2262, 2554 or later while JitterRng::new() runs, billions of HC-128 words searched for zero / repeated words with short calls made right there, results buffers primed with chosen contents before generate(), public block cores sharing one scratch buffer, other targets interpreted by Miri (aarch64, s390x, i686, mips, Windows, macOS), builds with --cfg fuzzing, builds with every ALL_CAPS string literal of the sources set in the BUILD environment (option_env!), bincode with options() (varint, big-endian), damaged snapshots in which an array arrives as a string with multi-byte characters, pairs of generators that handed out the same number of bytes through different numbers of words, 2^16 collections in one process under a logger that accepts everything, runs repeated from thread-local destructors, sources whose TYPE is zero-sized (handles to state kept elsewhere), all pairs of thousands of unrelated generators compared with ==, a self-describing serialisation format that is not human-readable (also through flatten / tagged / untagged embeddings), a logger whose enabled() refuses the library's targets while the max level admits Trace, Debug text compared after every single block of 2^30 blocks, the real-clock constructor's Ok/Err compared next to other instances' failing timer tests, length-prefixed serialisation formats that trust the declared sequence / tuple length ")
for f in sorted(glob.glob(f"/tmp/seed/C??-{prev}.full.txt")):
    pid = os.path.basename(f)[:3]
    s = open(f).read().replace(f"{pid}-{prev}", f"{pid}-{new}")
    ideas = []
    for m in sorted(glob.glob(f"/verif/seeded/{pid}-*/meta.json")):
        ideas.append(json.load(open(m))["what_it_needs_to_manifest"])
    i = s.index("  - ", s.index("The following ideas are TAKEN"))
    j = s.index("Find a genuinely NEW mechanism")
    s = s[:i] + "".join("  - %s\n" % x for x in ideas) + s[j:]
    a = s.index("and who already tests with")
    b = s.index("- would still not think of")
    s = s[:a] + CAPS + s[b:]
    open(f"/tmp/seed/{pid}-{new}.full.txt", "w").write(s)
    wt = f"/tmp/seed/{pid}-{new}"
    if not os.path.isdir(wt):
        subprocess.check_call(["git", "-C", "/repo", "worktree", "add", "-q", "--detach", wt, "HEAD"])
    print(pid, len(ideas), "ideas taken")
