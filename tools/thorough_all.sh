#!/bin/bash
# Runs every thorough check once (scratch VERIF_DIR so that committed evidence is not touched); prints exit codes and wall times.
V=$(cd "$(dirname "$0")/.."; pwd)
D=$(mktemp -d /tmp/thorough.XXXX); cp $V/KNOWN_FINDINGS.txt $D/
export VERIF_TARGET=${VERIF_TARGET:-$D/target}
bad=0
for id in ${@:-C05 C08 C09 C10 C11 C12 C13 C14 C16 C17 C18 C19}; do
  t0=$(date +%s)
  out=$(VERIF_DIR=$D $V/check $id thorough 2>&1); rc=$?
  t1=$(date +%s)
  echo "$id thorough exit=$rc wall=$((t1-t0))s :: $(echo "$out" | grep -E "^$id" | tail -2 | tr '\n' ' ')"
  if [ $rc -ne 0 ]; then bad=$((bad+1)); echo "$out" | tail -8; fi
  cp $D/evidence/$id.json $D/evidence/$id.thorough.json 2>/dev/null
done
echo "thorough finished: problems=$bad (evidence copies under $D/evidence)"
