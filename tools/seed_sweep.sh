#!/bin/bash
# False-alarm sweep: every quick check under many VERIF_SEED values on the unchanged tree must exit 0.
# usage: tools/seed_sweep.sh <from> <to> [ID...]   (evidence/replays go to a scratch VERIF_DIR)
FROM=${1:-2}; TO=${2:-12}; shift 2
IDS=${@:-C05 C08 C09 C10 C11 C12 C13 C14 C16 C17 C18 C19}
V=$(cd "$(dirname "$0")/.."; pwd)
D=$(mktemp -d /tmp/sweep.XXXX); cp $V/KNOWN_FINDINGS.txt $D/
export VERIF_TARGET=${VERIF_TARGET:-$D/target}
bad=0
for s in $(seq $FROM $TO); do
  for id in $IDS; do
    out=$(VERIF_SEED=$s VERIF_DIR=$D $V/check $id ${TIER:-quick} 2>&1); rc=$?
    if [ $rc -ne 0 ]; then echo "SEED $s $id exit=$rc"; echo "$out" | tail -5; bad=$((bad+1)); fi
  done
  echo "seed $s done, problems so far: $bad"
done
rm -rf $D
echo "sweep finished: problems=$bad"
exit $bad
