#!/bin/bash
# Sensitivity matrix: every seeded change and every own mutant against every claimed check (quick tier).
# Output: one line per (patch, check): "<patch> <check> <exit>"   (1 = violation reported, 0 = clean, 2 = harness error)
V=$(cd "$(dirname "$0")/.."; pwd); cd $V
export SCRATCH=${SCRATCH:-/tmp/rngs-matrix}
OUT=${1:-$V/matrix.out}; : > $OUT
IDS="C05 C08 C09 C10 C11 C12 C13 C14 C16 C17 C18 C19"
for p in seeded/*/patch.diff mutants/*.diff; do
  res=$(KEEP=1 VERIF_MIRI_SCENARIOS=${MIRI_SCEN:-3} mutants/run.sh $p $IDS 2>&1 | grep -E "^== ")
  echo "$res" | while read -r _ name id ex; do echo "$p $id ${ex#exit=}" >> $OUT; done
  echo "done $p: $(echo "$res" | grep -c 'exit=1') checks fired"
done
rm -rf $SCRATCH
