//! C14 — no generator operation panics or overflows, for any input, history or timer.
//! Invariant monitor: every operation of every scenario runs under `catch_unwind` in a build
//! with overflow checks and debug assertions; here the workloads of all other scenarios are
//! re-used (only the panic monitor counts, their own oracles are ignored) and two dedicated
//! hostile mixes are added.

use super::common::*;
use crate::clockgen::{count_fired, gen_clock, pick_faults, ClockCfg, ALL_CF, CF};
use crate::gens::{build_jitter, construct, construct_core, guard, restore, Constructed, CoreConstructed, DynGen, Kind, SeedSpec, SnapFmt, SutFail, CORE_KINDS, DET_KINDS};
use crate::models::stream::Call;
use crate::prng::Prng;
use crate::seams::source::SourceFault;
use crate::spec::{Op, RunEnd, Scenario, Spec, Stats, Tier, Violation};
use std::sync::Arc;

pub struct C14;

const SUBS: [&str; 9] = ["C05", "C08", "C09", "C10", "C11", "C12", "C13", "C16", "C17"];

fn hostile_seed(rng: &mut Prng, kind: Kind) -> SeedSpec {
    let n = kind.seed_len();
    match rng.below(10) {
        0 => SeedSpec::Bytes(vec![0; n]),
        1 => SeedSpec::Bytes(vec![0xff; n]),
        2 => SeedSpec::Bytes(vec![0x80; n]),
        3 => SeedSpec::U64(rng.edge_u64()),
        4 => SeedSpec::U64(u64::MAX - rng.below(3)),
        5 | 6 => {
            let mut src = gen_source(rng, kind);
            if rng.chance(1, 2) {
                src.fault = Some(SourceFault { call: rng.range(1, 3) as u32, torn: rng.below(kind.from_rng_len() as u64 + 1) as u32, token: rng.u64() });
            }
            if rng.chance(1, 2) {
                SeedSpec::TryFromRng(src)
            } else {
                src.fault = None;
                SeedSpec::FromRng(src)
            }
        }
        _ => SeedSpec::Bytes(rng.bytes(n)),
    }
}

fn hostile_det_spec(rng: &mut Prng) -> Spec {
    let mut spec = Spec { prop: "C14".into(), variant: "hostile_det".into(), ..Default::default() };
    let kind = if rng.chance(1, 3) { *rng.pick(&[Kind::Hc128, Kind::Isaac, Kind::Isaac64]) } else { *rng.pick(&DET_KINDS) };
    spec.kind = Some(kind);
    if rng.chance(1, 8) {
        spec.core = Some(*rng.pick(&CORE_KINDS));
        spec.kind = Some(spec.core.unwrap().rng_kind());
    }
    let kind = spec.kind.unwrap();
    spec.seed = Some(hostile_seed(rng, kind));
    if kind == Kind::XorShift && spec.core.is_none() && rng.chance(1, 6) {
        let src = gen_long_zero_source(rng);
        spec.seed = Some(if rng.chance(1, 2) { SeedSpec::FromRng(src) } else { SeedSpec::TryFromRng(src) });
        spec.variant = "hostile_det_long_zero_source".into();
    }
    spec.pre = rng.below(pre_range(kind) + 1) as u32;
    let long = rng.chance(1, 6);
    let n = if long { rng.range(60, 220) } else { rng.range(1, 40) };
    let bb = kind.block_bytes() as u64;
    spec.ops = (0..n)
        .map(|_| match rng.below(14) {
            0 | 1 => Op::U32,
            2 | 3 => Op::U64,
            4..=6 => Op::Fill(match rng.below(5) {
                0 => 0,
                1 => rng.range(0, 9) as u32,
                2 => (3 * bb + 7) as u32,
                3 => rng.range(bb.saturating_sub(9), bb + 9) as u32,
                _ => rng.range(0, 3 * bb + 7) as u32,
            }),
            7 => Op::Jump,
            8 => Op::LongJump,
            9 => Op::Fork,
            10 => Op::Eq,
            11 => Op::Debug,
            12 => Op::Snap(*rng.pick(&[SnapFmt::Bincode, SnapFmt::Json, SnapFmt::BincodeFramed, SnapFmt::JsonFramed, SnapFmt::BincodeReader, SnapFmt::JsonReader, SnapFmt::JsonValue])),
            _ => Op::Fill(rng.range(0, 40) as u32),
        })
        .collect();
    maybe_long_haul(rng, &mut spec.ops, 60);
    if spec.core.is_none() && rng.chance(1, 25) && make_zero_word_run(rng, &mut spec, true) {
        spec.variant = "hostile_det_zero_word_state".into();
    }
    if spec.core.is_none() && spec.variant == "hostile_det" && matches!(kind, Kind::Isaac | Kind::Isaac64) && rng.chance(1, 5) {
        // far along in the stream: block counter near 2^24, 2^31, 2^32 (and 2^56, 2^63, 2^64 for ISAAC-64)
        let e = *rng.pick(&[24u32, 24, 31, 32, 56, 63, 64]);
        let e = if kind == Kind::Isaac { e.min(32) } else { e };
        let base = if e == 64 { 0u64 } else { 1u64 << e };
        spec.aux = vec![base.wrapping_sub(rng.below(3)).wrapping_add(rng.below(2))];
        spec.variant = "hostile_det_far_along".into();
    }
    spec
}

/// A stored snapshot that comes back damaged: deserialising it may fail, it must not panic.
fn hostile_snapshot_spec(rng: &mut Prng) -> Spec {
    let mut spec = Spec { prop: "C14".into(), variant: "hostile_snapshot".into(), ..Default::default() };
    let kind = if rng.chance(1, 2) {
        *rng.pick(&[Kind::Isaac, Kind::Isaac64])
    } else {
        loop {
            let k = *rng.pick(&DET_KINDS);
            if k != Kind::Hc128 {
                break k;
            }
        }
    };
    spec.kind = Some(kind);
    if matches!(kind, Kind::Isaac | Kind::Isaac64) && rng.chance(1, 4) {
        spec.core = Some(if kind == Kind::Isaac { crate::gens::CoreKind::IsaacCore } else { crate::gens::CoreKind::Isaac64Core });
    }
    spec.seed = Some(hostile_seed(rng, kind));
    if let Some(SeedSpec::TryFromRng(src)) = &spec.seed {
        spec.seed = Some(SeedSpec::FromRng(crate::seams::source::SourceSpec { fault: None, ..src.clone() }));
    }
    spec.pre = rng.below(pre_range(kind) + 1) as u32;
    // aux[0]: damage class; aux[1]: how it is read back; aux[2]: seed of the damage
    spec.aux = vec![rng.below(4), rng.below(3), rng.u64()];
    spec
}

#[cfg(feature = "snap")]
fn damage_json(v: &mut serde_json::Value, rng: &mut Prng) -> &'static str {
    use serde_json::Value;
    // collect the paths of all nodes
    fn walk(v: &Value, path: &mut Vec<String>, out: &mut Vec<Vec<String>>) {
        out.push(path.clone());
        match v {
            Value::Array(a) => {
                // arrays of 256 numbers: only a few positions are interesting
                for i in [0usize, 1, a.len() / 2, a.len().saturating_sub(1)] {
                    if i < a.len() {
                        path.push(i.to_string());
                        walk(&a[i], path, out);
                        path.pop();
                    }
                }
            }
            Value::Object(m) => {
                for (k, x) in m {
                    path.push(k.clone());
                    walk(x, path, out);
                    path.pop();
                }
            }
            _ => {}
        }
    }
    let mut paths = Vec::new();
    walk(v, &mut Vec::new(), &mut paths);
    // prefer containers: they carry the lengths
    let containers: Vec<&Vec<String>> = paths
        .iter()
        .filter(|p| {
            let mut n: &Value = v;
            for k in p.iter() {
                n = match n {
                    Value::Array(a) => &a[k.parse::<usize>().unwrap()],
                    Value::Object(m) => &m[k],
                    _ => unreachable!(),
                };
            }
            n.is_array() || n.is_object()
        })
        .collect();
    let path: Vec<String> = if !containers.is_empty() && rng.chance(2, 3) { (*rng.pick(&containers)).clone() } else { rng.pick(&paths).clone() };
    let mut node: &mut Value = v;
    for k in &path {
        node = match node {
            Value::Array(a) => &mut a[k.parse::<usize>().unwrap()],
            Value::Object(m) => m.get_mut(k).unwrap(),
            _ => unreachable!(),
        };
    }
    let big = [Value::from(u64::MAX), Value::from(-1i64), Value::from(1u64 << 32), Value::from(1e300), Value::from(0u64), Value::Null, Value::from("7"), Value::from(true), Value::Array(vec![]), Value::Object(Default::default())];
    match node {
        Value::Array(a) => match rng.below(8) {
            6 | 7 => {
                // the array arrives as ONE STRING (the alternative encodings a human-readable format invites: all
                // words as fixed-width hex digits, or decimal numbers with separators), of exactly the plausible
                // length, now and then with a multi-byte UTF-8 character in place of as many ASCII bytes - half
                // of the time right across a multiple of the word width
                let width = *rng.pick(&[16usize, 16, 8]);
                let mut t = String::new();
                let hex = rng.chance(3, 4);
                for x in a.iter() {
                    let w = x.as_u64().unwrap_or(0);
                    if hex {
                        if width == 16 {
                            t.push_str(&format!("{:016x}", w));
                        } else {
                            t.push_str(&format!("{:08x}", w as u32));
                        }
                    } else {
                        t.push_str(&format!("{},", w));
                    }
                }
                if rng.chance(2, 3) && t.len() > 8 {
                    let (ch, n) = *rng.pick(&[("\u{e9}", 2usize), ("\u{20ac}", 3), ("\u{1d11e}", 4)]);
                    let k = t.len() / width;
                    let p = if rng.chance(1, 2) && k > 1 { (rng.range(1, k as u64 - 1) as usize * width).saturating_sub(rng.range(1, n as u64 - 1) as usize) } else { rng.below((t.len() - n) as u64) as usize };
                    let p = p.min(t.len() - n);
                    t.replace_range(p..p + n, ch);
                }
                *node = Value::from(t);
                "array_as_string"
            }
            0 => {
                let x = a.last().cloned().unwrap_or(Value::from(1u64));
                for _ in 0..*rng.pick(&[1usize, 2, 255, 256, 1000]) {
                    a.push(x.clone());
                }
                "array_longer"
            }
            1 => {
                let k = (*rng.pick(&[1usize, 2, 128, 255])).min(a.len());
                a.truncate(a.len() - k);
                "array_shorter"
            }
            2 => {
                a.clear();
                "array_empty"
            }
            3 => {
                if !a.is_empty() {
                    let i = rng.below(a.len() as u64) as usize;
                    a[i] = rng.pick(&big).clone();
                }
                "element_replaced"
            }
            4 => {
                let x = a.clone();
                a.push(Value::Array(x));
                "array_nested"
            }
            _ => {
                *node = rng.pick(&big).clone();
                "array_replaced"
            }
        },
        Value::Object(m) => match rng.below(5) {
            0 => {
                let k: Vec<String> = m.keys().cloned().collect();
                if !k.is_empty() {
                    m.remove(rng.pick(&k));
                }
                "field_missing"
            }
            1 => {
                m.insert("unexpected".into(), Value::from(1u64));
                "field_unknown"
            }
            2 => {
                let k: Vec<String> = m.keys().cloned().collect();
                if !k.is_empty() {
                    let key = rng.pick(&k).clone();
                    let x = m.remove(&key).unwrap();
                    m.insert(format!("{}_", key), x);
                }
                "field_renamed"
            }
            3 => {
                // the object as a sequence of its values (what a non-self-describing writer would store)
                let vals: Vec<Value> = m.values().cloned().collect();
                *node = Value::Array(vals);
                "object_as_sequence"
            }
            _ => {
                *node = rng.pick(&big).clone();
                "object_replaced"
            }
        },
        _ => {
            *node = rng.pick(&big).clone();
            "scalar_replaced"
        }
    }
}

fn run_hostile_snapshot(spec: &Spec, st: &mut Stats) -> Result<(), E> {
    #[cfg(not(feature = "snap"))]
    {
        let _ = (spec, st);
        return Err(E::End(RunEnd::Discard("built_without_snap".into())));
    }
    #[cfg(feature = "snap")]
    {
        let kind = spec.kind.expect("kind");
        let seed = spec.seed.as_ref().expect("seed");
        let (class, how, dseed) = (spec.aux[0], spec.aux[1], spec.aux[2]);
        let mut rng = Prng::new(dseed);
        // the valid image (JSON for structural damage, bincode for byte damage)
        let fmt = if class < 2 { SnapFmt::Json } else { SnapFmt::Bincode };
        let img = if let Some(ck) = spec.core {
            let mut c = match sut(construct_core(ck, seed), "construct_core")? {
                CoreConstructed::Ok(c, _) => c,
                CoreConstructed::Err(..) => return Ok(()),
            };
            for _ in 0..spec.pre % 4 {
                sut(guard(|| c.generate()), "generate")?;
            }
            sut(guard(|| c.snapshot(fmt)), "core_serialize")?
        } else {
            let mut g = match sut(construct(kind, seed), "construct")? {
                Constructed::Ok(g, _) => g,
                Constructed::Err(..) => return Ok(()),
            };
            let native = if kind.word_bits() == 32 { Call::U32 } else { Call::U64 };
            for _ in 0..spec.pre {
                sut(super::c05::do_call(g.as_mut(), native), "pre")?;
            }
            sut(guard(|| g.snapshot(fmt)), "serialize")?
        };
        let mut img = match img {
            Some(i) => i,
            None => return Err(E::End(RunEnd::Discard("not_serialisable".into()))),
        };
        let what: &str = match class {
            0 | 1 => {
                let mut v: serde_json::Value = serde_json::from_slice(&img).expect("harness: own JSON image");
                let w = damage_json(&mut v, &mut rng);
                img = serde_json::to_vec(&v).unwrap();
                w
            }
            2 => {
                // torn write: the image ends early (or has trailing garbage)
                if rng.chance(3, 4) {
                    let k = rng.below(img.len() as u64) as usize;
                    img.truncate(k);
                    "torn_image"
                } else {
                    let k = rng.range(1, 40) as usize;
                    let extra = rng.bytes(k);
                    img.extend_from_slice(&extra);
                    "trailing_bytes"
                }
            }
            _ => {
                // flipped stored bytes, biased to the trailing scalars (indices, flags, counters)
                let flips = rng.range(1, 4);
                for _ in 0..flips {
                    let n = img.len();
                    let i = if rng.chance(1, 2) { n - 1 - rng.below(40.min(n as u64)) as usize } else { rng.below(n as u64) as usize };
                    img[i] = match rng.below(3) {
                        0 => 0xff,
                        1 => img[i] ^ (1 << rng.below(8)),
                        _ => rng.below(256) as u8,
                    };
                }
                "flipped_bytes"
            }
        };
        st.count(&format!("fault:snapshot_{}", what));
        let rfmt = match (class < 2, how) {
            (true, 0) => SnapFmt::Json,
            (true, 1) => SnapFmt::JsonReader,
            (true, _) => SnapFmt::JsonValue,
            (false, 0) => SnapFmt::Bincode,
            (false, _) => SnapFmt::BincodeReader,
        };
        st.sig(&[7, kind.id(), spec.core.is_some() as u64, crate::prng::hstr(what), how]);
        // the only demand: reading a damaged image back does not panic (Ok and Err are both fine;
        // nothing is asked of a generator restored from a damaged image)
        let ok = if let Some(ck) = spec.core {
            sut(guard(|| crate::gens::restore_core(ck, rfmt, &img).is_ok()), "core_deserialize_damaged")?
        } else {
            sut(guard(|| restore(kind, rfmt, &img).is_ok()), "deserialize_damaged")?
        };
        st.count(if ok { "probe:damaged_snapshot_accepted" } else { "probe:damaged_snapshot_rejected" });
        st.log.u64(ok as u64);
        Ok(())
    }
}

fn hostile_jitter_spec(rng: &mut Prng) -> Spec {
    let mut spec = Spec { prop: "C14".into(), variant: "hostile_jitter".into(), kind: Some(Kind::Jitter), ..Default::default() };
    spec.rounds = match rng.below(6) {
        0 => None,
        1 => Some(rng.range(1, 255) as u8),
        _ => Some(rng.range(1, 6) as u8),
    };
    let n = rng.range(1, 10);
    spec.ops = (0..n)
        .map(|_| match rng.below(12) {
            0..=2 => Op::U32,
            3 | 4 => Op::U64,
            5 | 6 => Op::Fill(rng.range(0, 33) as u32),
            7 => Op::TimerStats(rng.chance(1, 2)),
            8 => Op::SetRounds(if rng.chance(1, 6) { 0 } else { rng.range(1, 255) as u8 }),
            9 => Op::Fork,
            10 => Op::TestTimer,
            _ => Op::Debug,
        })
        .collect();
    // jumps near +-2^31 / 2^32, backward steps and wrap-around, densely: they then land on the
    // first, second and third delta of collections and of test_timer
    let base: Vec<CF> = vec![CF::JumpPos31, CF::JumpNeg31, CF::Jump2p32, CF::Backward, CF::BigPause];
    let mut faults = if rng.chance(2, 3) { base.clone() } else { pick_faults(rng, &ALL_CF) };
    if rng.chance(1, 4) {
        faults.push(CF::WrapU64);
    }
    if rng.chance(1, 6) {
        faults.push(CF::ZeroReading);
    }
    let est = super::c12::est_reads(&spec.ops, spec.rounds.unwrap_or(64) as u32) + spec.ops.iter().filter(|o| **o == Op::TestTimer).count() * 1601;
    let rate = rng.range(20, 400) as u32;
    let long_stuck = rng.chance(1, 40);
    let (clock, marks) = gen_clock(rng, &ClockCfg { n: (est * 5 / 4 + 16).min(30_000), faults, rate_per_1000: rate, max_stretch: 3, long_stuck });
    spec.clock = Some(clock);
    spec.aux = encode_marks(&marks);
    spec.logger = rng.chance(1, 4);
    spec
}

enum E {
    End(RunEnd),
}
fn sut<T>(r: Result<T, SutFail>, what: &str) -> Result<T, E> {
    match r {
        Ok(x) => Ok(x),
        Err(SutFail::Panic(m)) => Err(E::End(sut_panic(what, &m))),
        Err(SutFail::ClockAbort) => Err(E::End(RunEnd::Discard("clock_stuck".into()))),
    }
}

fn run_hostile_det(spec: &Spec, st: &mut Stats) -> Result<(), E> {
    let kind = spec.kind.expect("kind");
    let seed = spec.seed.as_ref().expect("seed");
    st.sig(&[1, kind.id(), seed.route(), spec.core.is_some() as u64, (spec.ops.len() > 50) as u64]);
    if let Some(ck) = spec.core {
        let mut c = match sut(construct_core(ck, seed), "construct_core")? {
            CoreConstructed::Ok(c, _) => c,
            CoreConstructed::Err(..) => {
                st.count("probe:constructor_returned_source_error");
                return Ok(());
            }
        };
        for op in spec.ops.iter().take(40) {
            match op {
                Op::Fork => c = sut(guard(|| c.boxed_clone()), "core_clone")?,
                Op::Eq => {
                    let d = sut(guard(|| c.boxed_clone()), "core_clone")?;
                    sut(guard(|| c.eq_dyn(d.as_ref())), "core_eq")?;
                }
                Op::Debug => {
                    sut(guard(|| c.debug()), "core_debug")?;
                }
                Op::Snap(f) => {
                    sut(guard(|| c.snapshot(*f)), "core_serialize")?;
                }
                _ => {
                    let b = sut(guard(|| c.generate()), "generate")?;
                    st.log.u64(b[0]);
                }
            }
        }
        return Ok(());
    }
    let mut g: Box<dyn DynGen> = match sut(construct(kind, seed), "construct")? {
        Constructed::Ok(g, _) => g,
        Constructed::Err(..) => {
            st.count("probe:constructor_returned_source_error");
            return Ok(());
        }
    };
    let native = if kind.word_bits() == 32 { Call::U32 } else { Call::U64 };
    for _ in 0..spec.pre {
        sut(super::c05::do_call(g.as_mut(), native), "pre")?;
    }
    if spec.variant == "hostile_det_far_along" {
        if let Some(f) = far_along(g.as_ref(), spec.aux[0]) {
            g = f;
            st.count("probe:far_along_counter");
        }
    }
    for op in &spec.ops {
        st.sig(&[2, kind.id(), op.code()]);
        match op {
            Op::U32 => {
                let o = sut(super::c05::do_call(g.as_mut(), Call::U32), "next_u32")?;
                super::c05::log_out(st, &o);
            }
            Op::U64 => {
                let o = sut(super::c05::do_call(g.as_mut(), Call::U64), "next_u64")?;
                super::c05::log_out(st, &o);
            }
            Op::Fill(n) => {
                if *n >= 4 * 65_536 {
                    st.count("probe:long_haul");
                }
                let o = sut(super::c05::do_call(g.as_mut(), Call::Fill(*n as usize)), "fill_bytes")?;
                super::c05::log_out(st, &o);
            }
            Op::Jump => {
                sut(guard(|| g.jump()), "jump")?;
            }
            Op::LongJump => {
                sut(guard(|| g.long_jump()), "long_jump")?;
            }
            Op::Fork => g = sut(guard(|| g.boxed_clone()), "clone")?,
            Op::Eq => {
                let d = sut(guard(|| g.boxed_clone()), "clone")?;
                sut(guard(|| g.eq_dyn(d.as_ref())), "eq")?;
            }
            Op::Debug => {
                sut(guard(|| g.debug()), "debug")?;
                if spec.ctx != 0 {
                    sut(guard(|| crate::gens::debug_in_ctx(g.as_ref(), spec.ctx)), "debug_in_ctx")?;
                }
            }
            Op::Snap(f) => {
                if let Some(img) = sut(guard(|| g.snapshot(*f)), "serialize")? {
                    match sut(guard(|| restore(kind, *f, &img)), "deserialize")? {
                        Ok(r) => g = r,
                        Err(_) => {}
                    }
                }
            }
            _ => {}
        }
    }
    Ok(())
}

fn run_hostile_jitter(spec: &Spec, st: &mut Stats) -> Result<(), E> {
    let clock = Arc::new(spec.clock.clone().expect("clock"));
    let mut g = build_jitter(clock.clone());
    if let Some(r) = spec.rounds {
        if r > 0 {
            sut(guard(|| g.jitter().unwrap().set_rounds(r)), "set_rounds")?;
        }
    }
    let marks = decode_marks(&spec.aux);
    let mut mask = 0u64;
    for (_, k) in &marks {
        mask |= 1 << k;
    }
    let r = (|| -> Result<(), E> {
        for op in &spec.ops {
            st.sig(&[3, op.code(), mask]);
            let reads = g.jitter_ref().unwrap().reads();
            g.jitter_ref().unwrap().set_cap(reads + 60_000);
            match op {
                Op::U32 => {
                    let v = sut(guard(|| g.next_u32()), "next_u32")?;
                    st.log.u64(v as u64);
                }
                Op::U64 => {
                    let v = sut(guard(|| g.next_u64()), "next_u64")?;
                    st.log.u64(v);
                }
                Op::Fill(n) => {
                    let mut b = vec![0u8; *n as usize];
                    sut(guard(|| g.fill_bytes(&mut b)), "fill_bytes")?;
                    st.log.bytes(&b);
                }
                Op::TimerStats(v) => {
                    let x = sut(guard(|| g.jitter().unwrap().timer_stats(*v)), "timer_stats")?;
                    st.log.u64(x as u64);
                }
                Op::SetRounds(r) => {
                    if *r > 0 {
                        sut(guard(|| g.jitter().unwrap().set_rounds(*r)), "set_rounds")?;
                    } else {
                        // the one documented panic: contained (as catch_unwind or a dying worker thread
                        // would), the generator stays in use - what follows must not panic
                        let _ = guard(|| g.jitter().unwrap().set_rounds(0));
                        st.count("probe:set_rounds_0_contained");
                    }
                }
                Op::Fork => g = sut(guard(|| g.boxed_clone()), "clone")?,
                Op::Debug => {
                    sut(guard(|| g.debug()), "debug")?;
                    if spec.ctx != 0 {
                        sut(guard(|| crate::gens::debug_in_ctx(g.as_ref(), spec.ctx)), "debug_in_ctx")?;
                    }
                }
                Op::TestTimer => {
                    st.count("probe:test_timer_in_history");
                    let r = sut(guard(|| g.jitter().unwrap().test_timer()), "test_timer")?;
                    // the documented idiom
                    if let Ok(rounds) = r {
                        st.log.u64(rounds as u64);
                        sut(guard(|| g.jitter().unwrap().set_rounds(rounds)), "set_rounds(test_timer()?)")?;
                    }
                }
                _ => {}
            }
        }
        Ok(())
    })();
    count_fired(&marks, g.jitter_ref().unwrap().reads(), st);
    r
}

impl Scenario for C14 {
    fn id(&self) -> &'static str {
        "C14"
    }
    fn level(&self) -> &'static str {
        "exploration"
    }
    fn runs(&self, tier: Tier) -> u64 {
        match tier {
            Tier::Quick => 160_000,
            Tier::Thorough => 8_000_000,
        }
    }
    fn generate(&self, rng: &mut Prng, tier: Tier) -> Spec {
        match rng.below(17) {
            0..=3 => hostile_jitter_spec(rng),
            4..=7 => hostile_det_spec(rng),
            16 => {
                if rng.chance(1, 110) {
                    // (about 85 marathons of 2^27 words per quick check)
                    marathon_spec(rng, "C14", "marathon", if tier == Tier::Quick { 128 } else { 256 })
                } else if rng.chance(1, 6) {
                    seeding_sweep_spec(rng, "C14", "seeding_sweep")
                } else {
                    hostile_snapshot_spec(rng)
                }
            }
            _ => {
                let id = *rng.pick(&SUBS);
                let scn = super::scenario(id).expect("sub scenario");
                scn.generate(rng, tier)
            }
        }
    }
    fn shrink(&self, spec: &Spec) -> Vec<Spec> {
        if spec.prop == "C14" {
            crate::minimise::generic_candidates(spec)
        } else {
            super::scenario(&spec.prop).map(|s| s.shrink(spec)).unwrap_or_default()
        }
    }
    fn execute(&self, spec: &Spec, st: &mut Stats) -> RunEnd {
        let r = if spec.prop == "C14" {
            st.evals += 1;
            let r = match spec.variant.as_str() {
                "hostile_jitter" => run_hostile_jitter(spec, st),
                "hostile_snapshot" => run_hostile_snapshot(spec, st),
                "marathon" => match run_marathon(spec, st) {
                    Ok(()) => Ok(()),
                    Err(SutFail::Panic(m)) => Err(E::End(sut_panic("marathon", &m))),
                    Err(SutFail::ClockAbort) => Ok(()),
                },
                "seeding_sweep" => match run_seeding_sweep(spec, st) {
                    Ok(()) => Ok(()),
                    Err((i, SutFail::Panic(m))) => Err(E::End(sut_panic(&format!("seeding #{}", i), &m))),
                    Err((_, SutFail::ClockAbort)) => Ok(()),
                },
                _ => run_hostile_det(spec, st),
            };
            match r {
                Ok(()) => RunEnd::Ok,
                Err(E::End(e)) => e,
            }
        } else {
            match super::scenario(&spec.prop) {
                Some(s) => {
                    st.count(&format!("probe:via_{}", spec.prop));
                    s.execute(spec, st)
                }
                None => RunEnd::Discard("bad_spec".into()),
            }
        };
        match r {
            RunEnd::Discard(s) if s.starts_with("SUT_PANIC") => {
                // "SUT_PANIC[what]: message @ file:line"
                let site = s.rsplit(" @ ").next().unwrap_or("?").to_string();
                // normalise the path: keep it from the crate directory on (repo copies live elsewhere)
                let site = match site.rfind("/rand_") {
                    Some(i) => site[i + 1..].to_string(),
                    None => site,
                };
                let what = s.split(']').next().unwrap_or("").trim_start_matches("SUT_PANIC[").to_string();
                RunEnd::Violation(Violation::new(&format!("C14/panic@{}", site), what, s))
            }
            RunEnd::Violation(v) if v.class.ends_with("/no_verdict_panic") => {
                // C13 reports a panicking test_timer as a violation of its own: it is one here as well
                let site = v.key.rsplit('@').next().unwrap_or("?").to_string();
                RunEnd::Violation(Violation::new(&format!("C14/panic@{}", site), "test_timer", v.detail))
            }
            RunEnd::Violation(_) => {
                // another property's oracle: reported by that property's own check, not here
                st.count("other_property_oracle_ignored");
                RunEnd::Ok
            }
            other => other,
        }
    }
    fn rule(&self) -> String {
        "Build: opt-level 2 with overflow-checks and debug-assertions ON. Every call into the crates under test runs under catch_unwind; a caught panic whose payload is not the simulator's own clock-abort token is a violation, keyed by operation and panic site. Workloads: (a) the run generators of C05, C08, C09, C10, C11, C12, C13, C16 and C17 re-used unchanged (their own oracles are ignored here); (b) hostile_det: all 19 deterministic types and the 3 public cores, all-0x00 / all-0xFF / 0x80.. / random seeds, u64 edge seeds, from_rng / try_from_rng with every source fault kind, pre-advance to every buffer index, 1..220 ops of next_u32/next_u64/fill_bytes(0..3 blocks+7)/jump/long_jump/clone/==/Debug/serde snapshot+restore; (c) hostile_jitter: JitterRng with rounds 1..=255 over clocks where jump_pos31, jump_neg31, jump_2p32, backward, big_pause (plus wrap_u64, zero_reading and the rest of the catalogue) are placed densely (2-40% of readings) so they land on the first, second and third delta of collections and of test_timer; ops next_u32/next_u64/fill_bytes/timer_stats/set_rounds/clone/Debug/test_timer followed by set_rounds(result); set_rounds(0), the one documented panic, is issued, contained, and followed by further use. distinct_nontrivial = distinct (workload, type, seeding route / op kind / enabled clock-fault set) signatures. Also: (hostile_snapshot) a stored image comes back damaged (JSON arrays longer/shorter/nested, fields missing/renamed/unknown, scalars replaced; bincode torn/extended/flipped), read back through slice, reader and Value: deserialising may fail, it must not panic; (seeding_sweep) 1500..4000 constructions per run from consecutive/sparse/hashed seeds; set_rounds(0) contained and followed by further use; Debug also while the thread unwinds / on another thread. Damaged snapshots also arrive with an array replaced by ONE STRING of the plausible length (hex / decimal encodings of the words, now and then with a 2..4-byte UTF-8 character across a word boundary). Runs with a real-clock JitterRng::new() execute it on shifted calendar dates (1970 .. beyond 2554); one run in nine is executed a second time from a thread-local destructor while its thread exits.".into()
    }
    fn assumptions(&self) -> Vec<String> {
        vec![
            "a JitterRng output call that does not return within 60000 further timer readings is aborted by the simulated clock and the run is discarded (documented: may fail to return while the timer stays stuck)".into(),
            "damaged snapshots: only 'deserialising does not panic' is demanded; a generator restored from a damaged image is not used further".into(),
        ]
    }
    fn components(&self) -> serde_json::Value {
        components_std()
    }
    fn required_probes(&self, _tier: Tier) -> Vec<&'static str> {
        vec![
            "probe:test_timer_in_history",
            "probe:constructor_returned_source_error",
            "fault:jump_pos31",
            "fault:jump_neg31",
            "fault:jump_2p32",
            "fault:backward",
            "fault:wrap_u64",
            "probe:via_C12",
            "probe:via_C13",
            "probe:long_haul",
        ]
    }
}
