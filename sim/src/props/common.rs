//! Pieces shared by several scenarios: seed generation, operation histories, the twin word
//! source, components descriptions.

use crate::clockgen::{gen_clock, ClockCfg, CF};
use crate::gens::{build_jitter, construct, guard, Constructed, DynGen, Kind, SeedSpec, SutFail, DET_KINDS};
use crate::models::stream::Words;
use crate::prng::Prng;
use crate::seams::clock::ClockSpec;
use crate::seams::source::SourceSpec;
use crate::spec::{Op, RunEnd, Spec, Stats};
use std::sync::Arc;

pub fn pick_det_kind(rng: &mut Prng) -> Kind {
    // buffered generators are over-weighted: most of the interesting state is there
    match rng.below(10) {
        0 | 1 => Kind::Hc128,
        2 => Kind::Isaac,
        3 | 4 => Kind::Isaac64,
        _ => *rng.pick(&DET_KINDS),
    }
}

pub fn gen_seed_bytes(rng: &mut Prng, n: usize) -> Vec<u8> {
    match rng.below(17) {
        15 | 16 => {
            // periodic byte lanes: e.g. the low half of every 64-bit word is zero, only byte k of each
            // 32-bit word is non-zero, every other byte is zero (a zero test that looks at part of
            // each word collides with such seeds)
            let period = *rng.pick(&[2usize, 4, 8, 8, 16]);
            let mut lanes: Vec<bool> = match rng.below(3) {
                0 => (0..period).map(|i| i >= period / 2).collect(),
                1 => (0..period).map(|i| i < period / 2).collect(),
                _ => (0..period).map(|_| rng.chance(1, 3)).collect(),
            };
            if !lanes.iter().any(|x| *x) {
                let i = rng.below(period as u64) as usize;
                lanes[i] = true;
            }
            let sparse = rng.chance(1, 2);
            let mut v = rng.bytes(n);
            let keep_word = rng.below((n / period.min(n)) as u64) as usize;
            for (i, b) in v.iter_mut().enumerate() {
                if !lanes[i % period] || (sparse && i / period != keep_word) {
                    *b = 0;
                }
            }
            if v.iter().all(|b| *b == 0) {
                let i = (0..n).find(|i| lanes[i % period]).unwrap_or(0);
                v[i] = 1;
            }
            v
        }
        13 | 14 => {
            // all words cancel: their wrapping SUM is zero, or their XOR is zero, at 32- or 64-bit width
            // (a checksum-style "is it all zero?" test collides with such seeds)
            let mut v = rng.bytes(n);
            if rng.chance(1, 4) {
                // few distinct values: e.g. [7, 7, 0, 0]
                let x = rng.u64().to_le_bytes();
                for (i, b) in v.iter_mut().enumerate() {
                    *b = if (i / 8) % 2 == 0 || rng.chance(1, 2) { x[i % 8] } else { 0 };
                }
            }
            let w = if n >= 16 && rng.chance(1, 2) { 8 } else { 4 };
            let words = n / w;
            let use_xor = rng.chance(1, 2);
            let mut acc: u64 = 0;
            for k in 0..words - 1 {
                let mut a = [0u8; 8];
                a[..w].copy_from_slice(&v[k * w..k * w + w]);
                let x = u64::from_le_bytes(a);
                acc = if use_xor { acc ^ x } else { acc.wrapping_add(x) };
            }
            let last = if use_xor { acc } else { 0u64.wrapping_sub(acc) };
            let lb = last.to_le_bytes();
            let k = words - 1;
            v[k * w..k * w + w].copy_from_slice(&lb[..w]);
            v
        }
        10 => {
            // two words that are additive inverses (the `+` scramblers then output 0), at 32- or 64-bit width
            let mut v = rng.bytes(n);
            let w = if n >= 16 && rng.chance(1, 2) { 8 } else { 4 };
            let words = n / w;
            if words >= 2 {
                let i = rng.below(words as u64) as usize;
                let j = (i + 1 + rng.below(words as u64 - 1) as usize) % words;
                if w == 8 {
                    let x = u64::from_le_bytes([v[i * 8], v[i * 8 + 1], v[i * 8 + 2], v[i * 8 + 3], v[i * 8 + 4], v[i * 8 + 5], v[i * 8 + 6], v[i * 8 + 7]]);
                    v[j * 8..j * 8 + 8].copy_from_slice(&0u64.wrapping_sub(x).to_le_bytes());
                } else {
                    let x = u32::from_le_bytes([v[i * 4], v[i * 4 + 1], v[i * 4 + 2], v[i * 4 + 3]]);
                    v[j * 4..j * 4 + 4].copy_from_slice(&0u32.wrapping_sub(x).to_le_bytes());
                }
            }
            v
        }
        11 => {
            // all words equal
            let x = rng.u64().to_le_bytes();
            (0..n).map(|i| x[i % 8]).collect()
        }
        12 => {
            // one word all ones, the rest random or zero
            let mut v = if rng.chance(1, 2) { rng.bytes(n) } else { vec![0u8; n] };
            let w = rng.below((n / 4) as u64) as usize;
            v[w * 4..w * 4 + 4].copy_from_slice(&[0xff; 4]);
            v
        }
        0 => vec![0u8; n],
        1 => vec![0xffu8; n],
        2 => {
            // single set bit
            let mut v = vec![0u8; n];
            let i = rng.below(n as u64) as usize;
            v[i] = 1 << rng.below(8);
            v
        }
        3 => {
            // one non-zero word
            let mut v = vec![0u8; n];
            let w = rng.below((n / 4) as u64) as usize;
            let x = rng.u32().to_le_bytes();
            v[w * 4..w * 4 + 4].copy_from_slice(&x);
            v
        }
        _ => rng.bytes(n),
    }
}

/// The documented replacement of the all-zero seed, as explicit bytes: a perfectly valid seed /
/// source block that collides with any "was this the fallback?" sentinel test.
pub fn zero_replacement_bytes(kind: Kind) -> Option<Vec<u8>> {
    let n = kind.seed_len();
    if kind == Kind::XorShift {
        Some((0..n).map(|i| 0x0BAD_5EEDu32.to_le_bytes()[i % 4]).collect())
    } else if kind.linear() {
        // first n bytes of the SplitMix64 stream started at 0 (mix64(z) = finalizer(z + PHI))
        let mut v = Vec::new();
        let mut z = 0u64;
        while v.len() < n {
            v.extend_from_slice(&crate::prng::mix64(z).to_le_bytes());
            z = z.wrapping_add(0x9e37_79b9_7f4a_7c15);
        }
        v.truncate(n);
        Some(v)
    } else {
        None
    }
}

pub fn gen_source(rng: &mut Prng, kind: Kind) -> SourceSpec {
    let n = kind.from_rng_len();
    if rng.chance(1, 30) {
        if let Some(b) = zero_replacement_bytes(kind) {
            return SourceSpec { zero_run: 0, prefix: b, key: rng.u64() | 1, fault: None };
        }
    }
    if kind != Kind::XorShift && rng.chance(1, 8) {
        // a short key followed by zeros only (XorShiftRng would redraw an all-zero tail for ever, so it is
        // left out): 1..72 explicit bytes, sometimes with a zero head as well
        let len = rng.range(1, 72) as usize;
        let mut prefix = if rng.chance(1, 2) { rng.bytes(len) } else { gen_seed_bytes(rng, len.max(8)) };
        if rng.chance(1, 3) {
            let z = rng.below(len as u64) as usize;
            for b in prefix.iter_mut().take(z) {
                *b = 0;
            }
        }
        return SourceSpec { zero_run: 0, prefix, key: 0, fault: None };
    }
    let prefix = match rng.below(4) {
        0 => Vec::new(),
        1 => gen_seed_bytes(rng, n.min(64)),
        _ => rng.bytes(n),
    };
    SourceSpec { zero_run: 0, prefix, key: rng.u64() | 1, fault: None }
}

/// A source that stays at zero for thousands to hundreds of thousands of blocks before it delivers something else
/// (a stuck-at-zero entropy source that recovers). Only XorShiftRng redraws, so only it reads the run.
pub fn gen_long_zero_source(rng: &mut Prng) -> SourceSpec {
    // log-uniform between 2 000 and 500 000 blocks: where a recursion-per-block overflows the stack depends on the
    // frame size, which differs between build configurations - the lengths have to straddle every threshold
    let e = rng.range(11, 18);
    let blocks = (1u64 << e) + rng.below(1u64 << e);
    SourceSpec { zero_run: 16 * blocks.min(500_000) as usize, prefix: rng.bytes(16), key: rng.u64() | 1, fault: None }
}

/// For the linear generators: a seed crafted so that, after `pre_steps` native steps followed by
/// jump() (which = 1) / long_jump() (2) / nothing (0), one whole word of the state is zero - a valid,
/// reachable state that plain sampling meets with probability 2^-32 .. 2^-64 per operation. The
/// generator's own linearity is used: the code under test is evaluated on the unit seeds.
/// Returns (seed, pre_steps, which).
pub fn gen_zero_word_after_jump_seed(rng: &mut Prng, kind: Kind) -> Option<(Vec<u8>, u32, u8)> {
    if !kind.linear() || !kind.has_serde() {
        return None;
    }
    let which: u8 = if kind.has_jump() { rng.below(3) as u8 } else { 0 };
    let pre_steps = rng.below(4) as u32 + if which == 0 { 1 } else { 0 };
    let wb = (kind.word_bits() / 8) as usize;
    let n = kind.seed_len();
    let word = rng.below((n / wb) as u64) as usize;
    let oracle = move |seed: &[u8]| -> Option<Vec<u8>> {
        let r = crate::gens::guard(|| -> Option<Vec<u8>> {
            let mut g = match construct(kind, &SeedSpec::Bytes(seed.to_vec())) {
                Ok(Constructed::Ok(g, _)) => g,
                _ => return None,
            };
            for _ in 0..pre_steps {
                if kind.word_bits() == 32 {
                    g.next_u32();
                } else {
                    g.next_u64();
                }
            }
            match which {
                1 => {
                    g.jump();
                }
                2 => {
                    g.long_jump();
                }
                _ => {}
            }
            g.snapshot(crate::gens::SnapFmt::Bincode)
        });
        r.ok().flatten()
    };
    let seed = crate::craft::solve_linear_seed(rng, n, &oracle, word * wb, wb)?;
    Some((seed, pre_steps, which))
}

/// Turn `spec` into a crafted linear-engine run: the state has a zero word right after the
/// pre-advance (+ an initial jump / long_jump operation). Returns false (spec untouched) when the
/// kind does not qualify or no seed was found.
pub fn make_zero_word_run(rng: &mut Prng, spec: &mut Spec, allow_jump_op: bool) -> bool {
    let kinds: Vec<Kind> = DET_KINDS.iter().copied().filter(|k| k.linear()).collect();
    let kind = *rng.pick(&kinds);
    match gen_zero_word_after_jump_seed(rng, kind) {
        Some((seed, pre, which)) if allow_jump_op || which == 0 => {
            spec.kind = Some(kind);
            spec.core = None;
            spec.seed = Some(SeedSpec::Bytes(seed));
            spec.pre = pre;
            spec.ops.retain(|o| !matches!(o, Op::Jump | Op::LongJump) || kind.has_jump());
            for o in spec.ops.iter_mut() {
                if let Op::Fill(n) = o {
                    *n %= 97;
                }
            }
            match which {
                1 => spec.ops.insert(0, Op::Jump),
                2 => spec.ops.insert(0, Op::LongJump),
                _ => {}
            }
            true
        }
        _ => false,
    }
}

/// A seed through any infallible route.
pub fn gen_seed(rng: &mut Prng, kind: Kind) -> SeedSpec {
    if rng.chance(1, 40) {
        if let Some(b) = zero_replacement_bytes(kind) {
            return SeedSpec::Bytes(b);
        }
    }
    match rng.below(10) {
        0 | 1 => SeedSpec::U64(rng.edge_u64()),
        2 => SeedSpec::FromRng(gen_source(rng, kind)),
        3 => SeedSpec::TryFromRng(gen_source(rng, kind)),
        _ => SeedSpec::Bytes(gen_seed_bytes(rng, kind.seed_len())),
    }
}

/// fill_bytes lengths: zero / tiny / straddling a refill / multiples of a block / rarely large
pub fn gen_fill_len(rng: &mut Prng, kind: Kind) -> u32 {
    let bb = kind.block_bytes() as u64;
    (match rng.below(16) {
        0 => 0,
        1..=5 => rng.range(1, 9),
        6..=8 => rng.range(bb.saturating_sub(9), bb + 9),
        9 | 10 => rng.range((2 * bb).saturating_sub(9), 2 * bb + 9),
        11 => 3 * bb + 7,
        12 => rng.range(9, 40),
        13 => {
            if rng.chance(1, 8) {
                8192 + rng.below(9)
            } else {
                rng.range(1, 9)
            }
        }
        _ => rng.range(0, bb + 2),
    }) as u32
}

/// op mix for an output history, swarm style: the mix itself is drawn per run
pub fn gen_output_ops(rng: &mut Prng, kind: Kind, max_ops: u64) -> Vec<Op> {
    let n = rng.range(1, max_ops);
    let mix = match rng.below(6) {
        0 => [1, 0, 0], // next_u32 only
        1 => [0, 1, 0],
        2 => [0, 0, 1],
        3 => [4, 1, 1],
        4 => [1, 1, 4],
        _ => [2, 2, 2],
    };
    let small_fill = rng.chance(1, 4);
    (0..n)
        .map(|_| match rng.weighted(&mix) {
            0 => Op::U32,
            1 => Op::U64,
            _ => {
                if small_fill {
                    Op::Fill(rng.below(10) as u32)
                } else {
                    Op::Fill(gen_fill_len(rng, kind))
                }
            }
        })
        .collect()
}

/// Long-haul length: one fill_bytes that draws more than 2^16 32-bit words (more than 4096 HC-128
/// blocks, 256 ISAAC blocks) from a single instance, so that counters which only wrap after many
/// refills are driven past their limit.
pub fn long_haul_len(rng: &mut Prng) -> u32 {
    (4 * 65_536 + rng.below(8_192)) as u32
}

/// with probability 1/`one_in`, insert one long-haul fill at a random position
pub fn maybe_long_haul(rng: &mut Prng, ops: &mut Vec<Op>, one_in: u64) -> bool {
    if rng.chance(1, one_in) {
        let at = rng.below(ops.len() as u64 + 1) as usize;
        let n = long_haul_len(rng);
        ops.insert(at, Op::Fill(n));
        true
    } else {
        false
    }
}

pub fn pre_range(kind: Kind) -> u64 {
    if kind.buffered() {
        kind.block_words() as u64 + 2
    } else {
        3
    }
}

/// Healthy clock (with an optional sprinkling of faults) for scenarios whose subject is not the clock.
pub fn gen_plain_clock(rng: &mut Prng, n: usize) -> ClockSpec {
    let faults = if rng.chance(1, 4) { vec![CF::Stall, CF::ConstDelta] } else { vec![] };
    let (spec, _) = gen_clock(rng, &ClockCfg { n, faults, rate_per_1000: 4, max_stretch: 4 , long_stuck: false});
    spec
}

pub fn encode_marks(marks: &[(u32, u8)]) -> Vec<u64> {
    marks.iter().map(|(i, k)| ((*i as u64) << 8) | *k as u64).collect()
}
pub fn decode_marks(aux: &[u64]) -> Vec<(u32, u8)> {
    aux.iter().map(|x| ((x >> 8) as u32, (x & 0xff) as u8)).collect()
}

/// Build the generator a spec describes (deterministic kinds via their seeding route,
/// JitterRng over the simulated clock). `Err(RunEnd)` ends the run.
pub fn build(spec: &Spec, use_second: bool) -> Result<Box<dyn DynGen>, RunEnd> {
    let kind = spec.kind.expect("spec.kind");
    if kind == Kind::Jitter {
        let cl = if use_second { spec.clock2.clone() } else { spec.clock.clone() };
        let cl = Arc::new(cl.expect("spec.clock"));
        let mut g = build_jitter(cl);
        if let Some(r) = spec.rounds {
            if r == 0 {
                return Err(RunEnd::Discard("rounds0".into()));
            }
            g.jitter().unwrap().set_rounds(r);
        }
        return Ok(g);
    }
    let seed = if use_second { spec.seed2.as_ref() } else { spec.seed.as_ref() };
    match construct(kind, seed.expect("spec.seed")) {
        Ok(Constructed::Ok(g, _)) => Ok(g),
        Ok(Constructed::Err(_, _)) => Err(RunEnd::Discard("source_error".into())),
        Err(SutFail::Panic(m)) => Err(sut_panic("construct", &m)),
        Err(SutFail::ClockAbort) => Err(RunEnd::Discard("clock_abort".into())),
    }
}

/// Uniform encoding of "the code under test panicked": a violation of C14 only. The engine of
/// every other property discards such a run (it does not decide that property).
pub fn sut_panic(what: &str, msg: &str) -> RunEnd {
    RunEnd::Discard(format!("SUT_PANIC[{}]: {}", what, msg))
}

/// The identically seeded twin, driven with native-width calls only: the native word stream W.
pub struct Twin {
    pub g: Box<dyn DynGen>,
    pub words: Vec<u64>,
    pub failed: Option<SutFail>,
}

impl Twin {
    pub fn new(g: Box<dyn DynGen>) -> Twin {
        Twin { g, words: Vec::new(), failed: None }
    }
}

impl Words for Twin {
    fn word(&mut self, i: usize) -> u64 {
        while self.words.len() <= i {
            let k = self.g.kind();
            let g = &mut self.g;
            let r = crate::gens::guard(|| if k.word_bits() == 32 { g.next_u32() as u64 } else { g.next_u64() });
            match r {
                Ok(v) => self.words.push(v),
                Err(e) => {
                    // remember the failure; the executor checks `failed` after each step
                    self.failed = Some(e);
                    self.words.push(0);
                }
            }
        }
        self.words[i]
    }
}

pub fn components_std() -> serde_json::Value {
    serde_json::json!({
        "real_code": ["rand_xoshiro", "rand_xorshift", "rand_hc", "rand_isaac", "rand_jitter (all from /repo working tree)",
                      "rand_core 0.9.5 (BlockRng, BlockRng64, fill_bytes_via_next, next_u64_via_u32, default seed_from_u64/from_rng/try_from_rng)",
                      "serde / bincode / serde_json for snapshots"],
        "stubs_owned_by_simulator": ["clock closure (SimClock: scripted readings, read counter, fork on clone)",
                      "source RNG (SimSource / FallibleSource: scripted bytes, call+byte accounting, injected faults)",
                      "disk (a Vec<u8> holding the snapshot)", "scheduler (baton passing over real OS threads)"]
    })
}


/// Seeding sweep: `count` constructions of one type from consecutive / sparse / hashed seeds, one
/// native output each (key schedules are data-dependent arithmetic that no output history reaches).
/// aux = [base, count, mode]; mode 0: seed_from_u64(base + i); 1: from_seed(first LE word = base + i,
/// rest zero); 2: from_seed(hashed bytes); 3: from_seed(last LE word = base + i, rest 0xff).
/// Returns Err((i, failure)) at the first construction or output that panics.
pub fn seeding_sweep_spec(rng: &mut Prng, prop: &str, variant: &str) -> Spec {
    let mut spec = Spec { prop: prop.into(), variant: variant.into(), ..Default::default() };
    let kind = if rng.chance(2, 3) { *rng.pick(&[Kind::Hc128, Kind::Hc128, Kind::Isaac, Kind::Isaac64]) } else { pick_det_kind(rng) };
    spec.kind = Some(kind);
    let base = match rng.below(4) {
        0 => rng.below(1 << 20),
        1 => rng.below(1 << 32),
        2 => u64::MAX - rng.below(1 << 20),
        _ => rng.u64(),
    };
    let count = if matches!(kind, Kind::Hc128 | Kind::Isaac | Kind::Isaac64) { 1500 } else { 4000 };
    spec.aux = vec![base, count, rng.below(4)];
    spec
}

pub fn run_seeding_sweep(spec: &Spec, st: &mut Stats) -> Result<(), (u64, SutFail)> {
    let kind = spec.kind.expect("kind");
    let (base, count, mode) = (spec.aux[0], spec.aux[1], spec.aux[2]);
    let n = kind.seed_len();
    st.count("probe:seeding_sweep");
    for i in 0..count {
        let x = base.wrapping_add(i);
        let seed = match mode {
            0 => SeedSpec::U64(x),
            1 => {
                let mut b = vec![0u8; n];
                let w = x.to_le_bytes();
                let k = n.min(8);
                b[..k].copy_from_slice(&w[..k]);
                SeedSpec::Bytes(b)
            }
            2 => {
                let mut b = vec![0u8; n];
                for (j, c) in b.chunks_mut(8).enumerate() {
                    let h = crate::prng::h2(x, j as u64).to_le_bytes();
                    c.copy_from_slice(&h[..c.len()]);
                }
                SeedSpec::Bytes(b)
            }
            _ => {
                let mut b = vec![0xffu8; n];
                let w = x.to_le_bytes();
                let k = n.min(8);
                b[n - k..].copy_from_slice(&w[..k]);
                SeedSpec::Bytes(b)
            }
        };
        match crate::gens::construct(kind, &seed) {
            Ok(crate::gens::Constructed::Ok(mut g, _)) => match guard(|| g.next_u64()) {
                Ok(v) => st.log.u64(v),
                Err(e) => return Err((i, e)),
            },
            Ok(crate::gens::Constructed::Err(..)) => {}
            Err(e) => return Err((i, e)),
        }
        st.evals += 1;
    }
    st.sig(&[77, kind.id(), mode]);
    Ok(())
}


/// An ISAAC generator that is FAR ALONG in its stream: the block counter `c` (the last word of the
/// durable image) is set to `value` through the image. Every counter value is reached by a long
/// enough honest history (2^24 blocks are 16 GiB of output), which no run can afford to generate.
pub fn far_along(g: &dyn DynGen, value: u64) -> Option<Box<dyn DynGen>> {
    let kind = g.kind();
    if !matches!(kind, Kind::Isaac | Kind::Isaac64) {
        return None;
    }
    let w = (kind.word_bits() / 8) as usize;
    let mut img = guard(|| g.snapshot(crate::gens::SnapFmt::Bincode)).ok()??;
    let n = img.len();
    if n < w {
        return None;
    }
    img[n - w..].copy_from_slice(&value.to_le_bytes()[..w]);
    match guard(|| crate::gens::restore(kind, crate::gens::SnapFmt::Bincode, &img)) {
        Ok(Ok(r)) => Some(r),
        _ => None,
    }
}


/// HC-128 marathon (C14, C18 corpus): one instance produces `chunks` x 4 MiB; a rare event in the key
/// stream itself (two equal adjacent words: 2^-32 per word) cannot be crafted for a non-invertible
/// cipher, it has to be met. The digest takes the first and last eight bytes of every chunk.
pub fn marathon_spec(rng: &mut Prng, prop: &str, variant: &str, chunks: u64) -> Spec {
    let mut spec = Spec { prop: prop.into(), variant: variant.into(), kind: Some(Kind::Hc128), ..Default::default() };
    spec.seed = Some(gen_seed(rng, Kind::Hc128));
    spec.aux = vec![chunks];
    spec
}

pub fn run_marathon(spec: &Spec, st: &mut Stats) -> Result<(), SutFail> {
    let kind = spec.kind.expect("kind");
    let mut g = match construct(kind, spec.seed.as_ref().expect("seed"))? {
        Constructed::Ok(g, _) => g,
        Constructed::Err(..) => return Ok(()),
    };
    let chunks = spec.aux.first().copied().unwrap_or(1);
    let mut buf = vec![0u8; 4 << 20];
    for _ in 0..chunks {
        let gm = g.as_mut();
        let bm = &mut buf;
        guard(|| gm.fill_bytes(bm))?;
        st.log.bytes(&buf[..8]);
        st.log.bytes(&buf[buf.len() - 8..]);
    }
    st.add("probe:marathon_mebibytes", 4 * chunks);
    st.sig(&[kind.id(), 4243]);
    Ok(())
}
