pub mod common;
pub mod c05;

use crate::spec::Scenario;

pub fn scenario(id: &str) -> Option<Box<dyn Scenario>> {
    match id {
        "C05" => Some(Box::new(c05::C05)),
        _ => None,
    }
}

pub const ALL: [&str; 1] = ["C05"];
