//! C17 — Debug output of state-hiding generators never depends on seed or state.
//! Two-run non-interference: same public history, different secret.

use super::common::*;
use crate::engine::viol;
use crate::gens::{construct_core, guard, CoreConstructed, CoreKind, DynGen, Kind, SnapFmt, SutFail, CORE_KINDS};
use crate::models::stream::{Call, Out};
use crate::prng::Prng;
use crate::spec::{Op, RunEnd, Scenario, Spec, Stats, Tier};
use std::collections::BTreeSet;

pub struct C17;

const HIDING: [Kind; 5] = [Kind::XorShift, Kind::Hc128, Kind::Isaac, Kind::Isaac64, Kind::Jitter];
const THRESHOLD: u64 = 100_000;

enum E {
    End(RunEnd),
}
fn sut<T>(r: Result<T, SutFail>, what: &str) -> Result<T, E> {
    match r {
        Ok(x) => Ok(x),
        Err(SutFail::Panic(m)) => Err(E::End(sut_panic(what, &m))),
        Err(SutFail::ClockAbort) => Err(E::End(RunEnd::Discard("clock_stuck".into()))),
    }
}

/// numbers that appear in a text, as decimal and as hexadecimal tokens
fn numeric_tokens(text: &str) -> Vec<u64> {
    let mut v = Vec::new();
    for tok in text.split(|c: char| !c.is_ascii_alphanumeric()) {
        if tok.is_empty() {
            continue;
        }
        if let Ok(x) = tok.parse::<u64>() {
            v.push(x);
        }
        let h = tok.strip_prefix("0x").or_else(|| tok.strip_prefix("0X")).unwrap_or(tok);
        if h.len() >= 5 {
            if let Ok(x) = u64::from_str_radix(h, 16) {
                v.push(x);
            }
        }
    }
    v
}

fn words_of_image(img: &[u8], word: usize) -> Vec<u64> {
    img.chunks(word)
        .filter(|c| c.len() == word)
        .map(|c| {
            let mut a = [0u8; 8];
            a[..word].copy_from_slice(c);
            u64::from_le_bytes(a)
        })
        .collect()
}

/// secret words of a generator: its state image where available, plus its buffered / next outputs
fn secrets(g: &dyn DynGen, last_out: &[u64]) -> Result<BTreeSet<u64>, SutFail> {
    let kind = g.kind();
    let mut s = BTreeSet::new();
    if let Some(img) = g.snapshot(SnapFmt::Bincode) {
        for w in words_of_image(&img, (kind.word_bits() / 8) as usize) {
            s.insert(w);
        }
    }
    if kind != Kind::Jitter {
        let mut c = g.boxed_clone();
        let n = 2 * kind.block_words();
        guard(|| {
            for _ in 0..n {
                if kind.word_bits() == 32 {
                    s.insert(c.next_u32() as u64);
                } else {
                    s.insert(c.next_u64());
                }
            }
        })?;
    }
    for w in last_out {
        s.insert(*w);
        s.insert(*w >> 32);
        s.insert(*w & 0xffff_ffff);
    }
    Ok(s.into_iter().filter(|w| *w >= THRESHOLD).collect())
}

fn check_texts(name: &str, a: &(String, String), b: &(String, String), sa: &BTreeSet<u64>, sb: &BTreeSet<u64>, at: &str) -> Result<(), E> {
    if a.0 != b.0 || a.1 != b.1 {
        return Err(E::End(viol(
            "C17/debug_depends_on_secret",
            format!("{}:debug", name),
            format!("{} {}: Debug text differs between two generators with different secrets and the same public history: {:?} vs {:?}", name, at, trunc(&a.0), trunc(&b.0)),
        )));
    }
    for (text, set) in [(&a.0, sa), (&a.1, sa), (&b.0, sb), (&b.1, sb)] {
        for t in numeric_tokens(text) {
            if t >= THRESHOLD && set.contains(&t) {
                return Err(E::End(viol(
                    "C17/debug_contains_state_word",
                    format!("{}:debug", name),
                    format!("{} {}: Debug text {:?} contains the state/output word {} ({:#x})", name, at, trunc(text), t, t),
                )));
            }
        }
    }
    Ok(())
}

/// the plain texts and, when the run has an ambient context (`Spec.ctx`), the texts produced in it,
/// appended to the second member so that every comparison covers them
fn texts_in_ctx(g: &dyn DynGen, ctx: u8, st: &mut Stats) -> Result<(String, String), E> {
    let mut t = sut(guard(|| g.debug()), "debug")?;
    if ctx != 0 {
        let x = sut(guard(|| crate::gens::debug_in_ctx(g, ctx)), "debug_in_ctx")?;
        t.1.push('\u{2}');
        t.1.push_str(&x.0);
        t.1.push('\u{2}');
        t.1.push_str(&x.1);
        st.count(if ctx == 1 { "probe:texts_while_unwinding" } else { "probe:texts_on_other_thread" });
    }
    Ok(t)
}

/// a non-output public operation, applied to both twins alike
fn side_op(a: &mut Box<dyn DynGen>, b: &mut Box<dyn DynGen>, op: &Op, kind: Kind, st: &mut Stats) -> Result<(), E> {
    st.count("probe:non_output_op_in_history");
    for g in [a, b] {
        if kind == Kind::Jitter {
            let r = g.jitter_ref().unwrap().reads();
            g.jitter_ref().unwrap().set_cap(r + 2_000);
        }
        match op {
            Op::TimerStats(v) if kind == Kind::Jitter => {
                let gm = g.as_mut();
                sut(guard(|| gm.jitter().unwrap().timer_stats(*v)), "timer_stats")?;
            }
            Op::SetRounds(r) if kind == Kind::Jitter => {
                let gm = g.as_mut();
                let res = guard(|| gm.jitter().unwrap().set_rounds(*r));
                if *r > 0 {
                    sut(res, "set_rounds")?;
                }
                // set_rounds(0): the documented panic, contained
            }
            Op::TestTimer if kind == Kind::Jitter => {
                let gm = g.as_mut();
                sut(guard(|| gm.jitter().unwrap().test_timer().is_ok()), "test_timer")?;
            }
            Op::Fork => {
                let c = sut(guard(|| g.boxed_clone()), "clone")?;
                *g = c;
            }
            Op::Snap(f) => {
                if let Some(img) = sut(guard(|| g.snapshot(*f)), "serialize")? {
                    if let Ok(r) = sut(guard(|| crate::gens::restore(kind, *f, &img)), "deserialize")? {
                        *g = r;
                    }
                }
            }
            Op::Eq => {
                let c = sut(guard(|| g.boxed_clone()), "clone")?;
                let _ = sut(guard(|| g.eq_dyn(c.as_ref())), "eq")?;
            }
            _ => {}
        }
    }
    Ok(())
}

fn gen_side_ops(rng: &mut Prng, kind: Kind, ops: &mut Vec<Op>) {
    if !rng.chance(1, 3) {
        return;
    }
    for _ in 0..rng.range(1, 2) {
        let op = if kind == Kind::Jitter {
            match rng.below(7) {
                0 | 1 => Op::TimerStats(rng.chance(1, 2)),
                2 => Op::SetRounds(rng.range(1, 5) as u8),
                3 => Op::SetRounds(0),
                4 => Op::TestTimer,
                _ => Op::Fork,
            }
        } else {
            match rng.below(3) {
                0 => Op::Fork,
                1 => Op::Eq,
                _ => Op::Snap(*rng.pick(&[SnapFmt::Bincode, SnapFmt::Json, SnapFmt::JsonReader, SnapFmt::JsonValue, SnapFmt::BincodeFramed])),
            }
        };
        let at = rng.below(ops.len() as u64 + 1) as usize;
        ops.insert(at, op);
    }
}

fn rng_rate(rng: &mut Prng) -> u32 {
    *rng.pick(&[150u32, 400, 800])
}

fn trunc(s: &str) -> String {
    if s.len() > 160 {
        format!("{}...", &s[..160])
    } else {
        s.to_string()
    }
}

impl Scenario for C17 {
    fn id(&self) -> &'static str {
        "C17"
    }
    fn level(&self) -> &'static str {
        "exploration"
    }
    fn runs(&self, tier: Tier) -> u64 {
        match tier {
            Tier::Quick => 60_000,
            Tier::Thorough => 6_000_000,
        }
    }
    fn generate(&self, rng: &mut Prng, _tier: Tier) -> Spec {
        let mut spec = Spec { prop: "C17".into(), ..Default::default() };
        if rng.chance(1, 4) {
            spec.variant = "core".into();
            let ck = *rng.pick(&CORE_KINDS);
            spec.core = Some(ck);
            spec.seed = Some(gen_seed(rng, ck.rng_kind()));
            spec.seed2 = Some(gen_seed(rng, ck.rng_kind()));
            spec.pre = rng.below(4) as u32;
            // aux[0]: what the owners' results buffers hold when generate() is called (the same for both twins:
            // the contents of an out-parameter on entry are public): 0 = what the previous call left there,
            // 1 = the block the FIRST twin is about to produce (taken from a clone of it), 2 = the block the
            // second twin is about to produce, 3 = zeros, 4 = all ones
            spec.aux = vec![rng.below(5)];
            return spec;
        }
        if rng.chance(1, if _tier == Tier::Quick { 130 } else { 1_300 }) {
            // seeding sweep: 2^16 never-used generators of one type from unrelated seeds, every text must equal the
            // first one's. aux = [type, key, n]
            spec.variant = "debug_seed_sweep".into();
            spec.kind = Some(Kind::Hc128);
            let ty = *rng.pick(&[0u64, 0, 0, 0, 1, 1, 2, 3, 4]);
            spec.aux = vec![ty, rng.u64(), 1 << 16];
            return spec;
        }
        if rng.chance(1, if _tier == Tier::Quick { 470 } else { 4_700 }) {
            // block marathon: two HC-128 cores with different keys, the text compared after EVERY block (a text
            // that reflects what one block left in the tables - a zero table word: 2^-28 per block - shows for
            // one block only). aux[0] = blocks per twin
            spec.variant = "core_block_marathon".into();
            spec.core = Some(crate::gens::CoreKind::Hc128Core);
            spec.seed = Some(crate::gens::SeedSpec::Bytes(rng.bytes(32)));
            spec.seed2 = Some(crate::gens::SeedSpec::Bytes(rng.bytes(32)));
            spec.aux = vec![if _tier == Tier::Quick { 1 << 23 } else { 1 << 25 }];
            return spec;
        }
        if rng.chance(1, if _tier == Tier::Quick { 625 } else { 6_250 }) {
            // marathon: a rare event in the key stream itself (two equal adjacent words: 2^-32 per word) must
            // not open the text either, and cannot be crafted for a non-invertible cipher: twins with
            // different seeds simply produce 2^27 words each (2^29 in the thorough tier)
            spec.variant = "gen_marathon".into();
            // (HC-128 only: states of the serialisable types can be manufactured, see the zero-word / equal-word states)
            let kind = Kind::Hc128;
            spec.kind = Some(kind);
            spec.seed = Some(gen_seed(rng, kind));
            spec.seed2 = Some(gen_seed(rng, kind));
            // aux[0]: chunks of 4 MiB
            spec.aux = vec![if _tier == Tier::Quick { 128 } else { 512 }];
            return spec;
        }
        spec.variant = "gen".into();
        let kind = *rng.pick(&HIDING);
        spec.kind = Some(kind);
        if kind == Kind::Jitter {
            spec.rounds = Some(rng.range(1, 6) as u8);
            spec.ops = gen_output_ops(rng, kind, 8).into_iter().map(|o| if let Op::Fill(n) = o { Op::Fill(n % 41) } else { o }).collect();
            gen_side_ops(rng, kind, &mut spec.ops);
            spec.clock = Some(gen_plain_clock(rng, 400));
            spec.clock2 = Some(gen_plain_clock(rng, 400));
            // the process's logging configuration (Trace enabled) must not open the text either
            spec.logger = rng.chance(1, 4);
            if rng.chance(1, 4) {
                // both generators run the timer test first, on scripts that fail it statistically more
                // often than not (coarse / constant / tiny-variation clocks, no early exit)
                use crate::clockgen::{gen_clock, ClockCfg, CF};
                let mk = |rng: &mut Prng| {
                    let faults = vec![*rng.pick(&[CF::Coarse100, CF::ConstDelta, CF::TinyVar, CF::Backward])];
                    let rate = rng_rate(rng);
                    let (c, _) = gen_clock(rng, &ClockCfg { n: 2100, faults, rate_per_1000: rate, max_stretch: 12, long_stuck: false });
                    c
                };
                spec.clock = Some(mk(rng));
                spec.clock2 = Some(mk(rng));
                spec.aux = vec![1]; // aux[0] = 1: test_timer first
                spec.variant = "gen_after_test_timer".into();
            }
            // one of the twins sometimes collects a crafted value (zero half / zero): "is the pool
            // still empty" style diagnostics collide with such values
            if rng.chance(1, 6) {
                let r = rng.range(1, 3) as usize;
                let mask = *rng.pick(&[crate::craft::MASK_ALL, crate::craft::MASK_ALL, crate::craft::MASK_HI, crate::craft::MASK_LO]);
                if let Some(d) = crate::craft::solve_deltas(rng, r + 1, mask) {
                    let mut readings = crate::craft::crafted_prefix(rng, &d);
                    let last = *readings.last().unwrap();
                    let tail = gen_plain_clock(rng, 400);
                    let first = tail.readings.first().copied().unwrap_or(0);
                    readings.extend(tail.readings.iter().map(|x| last.wrapping_add(x.wrapping_sub(first)).wrapping_add(97)));
                    spec.clock = Some(crate::seams::clock::ClockSpec { readings, tail_key: tail.tail_key, fork_skews: vec![], freeze: None, abort_at: None });
                    spec.rounds = Some(r as u8);
                    spec.ops.insert(0, Op::U64);
                    spec.variant = "gen_crafted_value".into();
                }
            }
        } else {
            spec.seed = Some(gen_seed(rng, kind));
            spec.seed2 = Some(gen_seed(rng, kind));
            spec.pre = rng.below(pre_range(kind) + 1) as u32;
            spec.ops = gen_output_ops(rng, kind, 16);
            gen_side_ops(rng, kind, &mut spec.ops);
            if rng.chance(1, 3) {
                // aux[1] = k: the second twin is k whole blocks further along - another history, the SAME public
                // read position (buffer index): the texts must still be equal
                spec.aux = vec![0, rng.range(1, 80)];
            }
        }
        spec
    }
    fn execute(&self, spec: &Spec, st: &mut Stats) -> RunEnd {
        st.evals += 1;
        let r = if spec.variant == "core" {
            self.run_core(spec, st)
        } else if spec.variant == "gen_marathon" {
            self.run_marathon(spec, st)
        } else if spec.variant == "core_block_marathon" {
            self.run_block_marathon(spec, st)
        } else if spec.variant == "debug_seed_sweep" {
            let (ty, key, n) = (spec.aux[0], spec.aux[1], spec.aux[2] as usize);
            let name = ["Hc128Rng", "Hc128Core", "IsaacRng", "Isaac64Rng", "XorShiftRng"][(ty as usize).min(4)];
            st.add("probe:seed_sweep_texts_compared", n as u64);
            st.sig(&[4545, ty]);
            match sut(crate::gens::debug_seed_sweep(ty, key, n), "construct/debug") {
                Ok(Some((i, a, b))) => Err(E::End(viol(
                    "C17/debug_depends_on_secret",
                    format!("{}:debug", name),
                    format!("{} never used: Debug text differs between two generators built from different seeds (seed 0 and seed {} of the sweep): {:?} vs {:?}", name, i, trunc(&a), trunc(&b)),
                ))),
                Ok(None) => Ok(()),
                Err(e) => Err(e),
            }
        } else {
            self.run_gen(spec, st)
        };
        match r {
            Ok(()) => RunEnd::Ok,
            Err(E::End(e)) => e,
        }
    }
    fn rule(&self) -> String {
        "Each run: twin generators of one state-hiding type (XorShiftRng, Hc128Rng, IsaacRng, Isaac64Rng, JitterRng; or the cores Hc128Core, IsaacCore, Isaac64Core) with DIFFERENT secrets (seed through any route; for JitterRng a different clock script) and the SAME public history (pre-advance, next_u32/next_u64/fill_bytes ops, so the same read position). After construction and after every operation {:?} and {:#?} of both must be byte-equal, and no decimal or hexadecimal token of the text may equal a state word (bincode image where available), a buffered/next output word (a clone's next two blocks) or a just-returned value >= 100000. distinct_nontrivial = distinct (type, buffer index, op kind) signatures at which the texts were compared. Histories also contain non-output operations applied to both twins (timer_stats, set_rounds incl. the contained set_rounds(0), test_timer, clone, snapshot/restore, ==). Texts are produced under every formatter flag ({:x?}, {:#X?}, {:+?}, width/precision/padding), and in one run out of three additionally while the thread unwinds from a harness-raised panic or on another thread. Extra passes: a build with --cfg fuzzing; a pass in which every ALL_CAPS token found in the compiled crates is set as an environment variable. Core runs: before each generate() both owners' results buffers are primed with the same public content (what the previous call left, the block the first or the second twin is about to produce - taken from a clone -, zeros, all ones). (core_block_marathon) two Hc128Core with different keys produce 2^23 blocks each, the {:?} text is compared after every generate(). (debug_seed_sweep) 2^16 never-used generators of one type from unrelated seeds: every {:?} text must equal the first one's.".into()
    }
    fn assumptions(&self) -> Vec<String> {
        vec!["words below 100000 are not searched for (chance hits on index / result_len)".into()]
    }
    fn components(&self) -> serde_json::Value {
        components_std()
    }
    fn required_probes(&self, _tier: Tier) -> Vec<&'static str> {
        vec!["probe:texts_compared", "probe:core_texts_compared", "probe:jitter_texts_compared"]
    }
}

impl C17 {
    fn run_gen(&self, spec: &Spec, st: &mut Stats) -> Result<(), E> {
        let kind = spec.kind.expect("kind");
        let mut a = build(spec, false).map_err(E::End)?;
        let mut b = build(spec, true).map_err(E::End)?;
        let native = if kind.word_bits() == 32 { Call::U32 } else { Call::U64 };
        if kind != Kind::Jitter {
            if let Some(k) = spec.aux.get(1).copied().filter(|k| *k > 0) {
                let words = k * kind.block_words() as u64;
                let bm = b.as_mut();
                sut(guard(|| {
                    for _ in 0..words {
                        if native == Call::U32 {
                            bm.next_u32();
                        } else {
                            bm.next_u64();
                        }
                    }
                }), "advance")?;
                st.count("probe:same_position_other_block");
            }
        }
        let mut calls: Vec<Call> = (0..spec.pre).map(|_| native).collect();
        // non-output operations (timer_stats, set_rounds, test_timer, clone, snapshot/restore, ==) are applied
        // to both twins right before the texts are compared at the point where they occur
        let mut sides: std::collections::BTreeMap<usize, Vec<Op>> = Default::default();
        for op in &spec.ops {
            match op {
                Op::U32 => calls.push(Call::U32),
                Op::U64 => calls.push(Call::U64),
                Op::Fill(n) => calls.push(Call::Fill(*n as usize)),
                other => sides.entry(calls.len()).or_default().push(other.clone()),
            }
        }
        if kind == Kind::Jitter && spec.aux.first().copied() == Some(1) {
            for g in [&mut a, &mut b] {
                let r = g.jitter_ref().unwrap().reads();
                g.jitter_ref().unwrap().set_cap(r + 1700);
                let gm = g.as_mut();
                sut(guard(|| {
                    let _ = gm.jitter().unwrap().test_timer();
                }), "test_timer")?;
            }
            st.count("probe:texts_after_test_timer");
        }
        let mut last_a: Vec<u64> = Vec::new();
        let mut last_b: Vec<u64> = Vec::new();
        let mut consumed = 0u64;
        for i in 0..=calls.len() {
            for op in sides.get(&i).map(|v| v.as_slice()).unwrap_or(&[]) {
                side_op(&mut a, &mut b, op, kind, st)?;
            }
            // compare texts at this point (after construction, then after every call)
            let da = texts_in_ctx(a.as_ref(), spec.ctx, st)?;
            let db = texts_in_ctx(b.as_ref(), spec.ctx, st)?;
            st.log.str(&da.0);
            // the (expensive) secret sets are only needed when a text contains a large number at all
            let big = |t: &(String, String)| numeric_tokens(&t.0).iter().chain(numeric_tokens(&t.1).iter()).any(|x| *x >= THRESHOLD);
            let (sa, sb) = if big(&da) || big(&db) {
                st.count("probe:large_number_in_text");
                (sut(secrets(a.as_ref(), &last_a), "secrets")?, sut(secrets(b.as_ref(), &last_b), "secrets")?)
            } else {
                (BTreeSet::new(), BTreeSet::new())
            };
            st.count("probe:texts_compared");
            if kind == Kind::Jitter {
                st.count("probe:jitter_texts_compared");
            }
            let code = if i == 0 {
                0
            } else {
                match calls[i - 1] {
                    Call::U32 => 1,
                    Call::U64 => 2,
                    Call::Fill(_) => 3,
                }
            };
            st.sig(&[kind.id(), consumed % kind.block_words() as u64, code]);
            check_texts(kind.name(), &da, &db, &sa, &sb, &format!("after {} calls", i))?;
            if i == calls.len() {
                break;
            }
            if kind == Kind::Jitter {
                for g in [&a, &b] {
                    let r = g.jitter_ref().unwrap().reads();
                    g.jitter_ref().unwrap().set_cap(r + 200_000);
                }
            }
            let oa = sut(super::c05::do_call(a.as_mut(), calls[i]), "op")?;
            let ob = sut(super::c05::do_call(b.as_mut(), calls[i]), "op")?;
            let words = |o: &Out| -> Vec<u64> {
                match o {
                    Out::U32(v) => vec![*v as u64],
                    Out::U64(v) => vec![*v],
                    Out::Bytes(bs) => bs.chunks(8).filter(|c| c.len() == 8).map(|c| u64::from_le_bytes([c[0], c[1], c[2], c[3], c[4], c[5], c[6], c[7]])).collect(),
                }
            };
            last_a = words(&oa);
            last_b = words(&ob);
            let wb = (kind.word_bits() / 8) as u64;
            consumed += match calls[i] {
                Call::U32 => 1,
                Call::U64 => {
                    if wb == 4 {
                        2
                    } else {
                        1
                    }
                }
                Call::Fill(n) => (n as u64 + wb - 1) / wb,
            };
        }
        Ok(())
    }

    fn run_marathon(&self, spec: &Spec, st: &mut Stats) -> Result<(), E> {
        let kind = spec.kind.expect("kind");
        let mut a = build(spec, false).map_err(E::End)?;
        let mut b = build(spec, true).map_err(E::End)?;
        let chunks = spec.aux.first().copied().unwrap_or(1);
        let mut buf = vec![0u8; 4 << 20];
        let none = BTreeSet::new();
        for c in 0..chunks {
            for g in [&mut a, &mut b] {
                let gm = g.as_mut();
                let bm = &mut buf;
                sut(guard(|| gm.fill_bytes(bm)), "fill_bytes")?;
            }
            // texts every 16 chunks and at the end
            if c % 16 == 15 || c + 1 == chunks {
                let da = sut(guard(|| a.debug()), "debug")?;
                let db = sut(guard(|| b.debug()), "debug")?;
                st.count("probe:marathon_texts_compared");
                check_texts(kind.name(), &da, &db, &none, &none, &format!("after {} MiB of output", 4 * (c + 1)))?;
            }
        }
        st.add("probe:marathon_mebibytes", 8 * chunks);
        st.log.u64(buf[0] as u64);
        st.sig(&[kind.id(), 4242]);
        Ok(())
    }

    fn run_block_marathon(&self, spec: &Spec, st: &mut Stats) -> Result<(), E> {
        let bytes = |s: &Option<crate::gens::SeedSpec>| -> [u8; 32] {
            let mut o = [0u8; 32];
            if let Some(crate::gens::SeedSpec::Bytes(b)) = s {
                o.copy_from_slice(&b[..32]);
            }
            o
        };
        let blocks = spec.aux.first().copied().unwrap_or(1 << 20);
        st.add("probe:block_marathon_texts_compared", blocks);
        st.sig(&[4444]);
        if let Some((k, ta, tb)) = sut(crate::gens::hc128_core_block_texts(bytes(&spec.seed), bytes(&spec.seed2), blocks), "generate/debug")? {
            return Err(E::End(viol(
                "C17/debug_depends_on_secret",
                "Hc128Core:debug".to_string(),
                format!("Hc128Core after {} generate() calls: Debug text differs between two cores with different keys and the same public history: {:?} vs {:?}", k, trunc(&ta), trunc(&tb)),
            )));
        }
        Ok(())
    }

    fn run_core(&self, spec: &Spec, st: &mut Stats) -> Result<(), E> {
        let ck = spec.core.expect("core");
        let mk = |seed| -> Result<Box<dyn crate::gens::DynCore>, E> {
            match sut(construct_core(ck, seed), "construct")? {
                CoreConstructed::Ok(c, _) => Ok(c),
                CoreConstructed::Err(..) => Err(E::End(RunEnd::Discard("source_error".into()))),
            }
        };
        let mut a = mk(spec.seed.as_ref().unwrap())?;
        let mut b = mk(spec.seed2.as_ref().unwrap())?;
        for i in 0..=spec.pre + 1 {
            let da = sut(guard(|| a.debug()), "debug")?;
            let db = sut(guard(|| b.debug()), "debug")?;
            st.log.str(&da.0);
            let word = if ck == CoreKind::Isaac64Core { 8 } else { 4 };
            let mut sa = BTreeSet::new();
            let mut sb = BTreeSet::new();
            for (c, s) in [(&a, &mut sa), (&b, &mut sb)] {
                if let Some(img) = c.snapshot(SnapFmt::Bincode) {
                    for w in words_of_image(&img, word) {
                        if w >= THRESHOLD {
                            s.insert(w);
                        }
                    }
                }
                let mut cc = c.boxed_clone();
                for w in sut(guard(|| cc.generate()), "generate")? {
                    if w >= THRESHOLD {
                        s.insert(w);
                    }
                }
            }
            st.count("probe:core_texts_compared");
            st.sig(&[100 + ck as u64, i as u64, 9]);
            check_texts(ck.name(), &da, &db, &sa, &sb, &format!("after {} generate() calls", i))?;
            // also through the harness-built BlockRng wrapper (BlockRng's Debug prints the core)
            let (wa, wb) = (a.wrap(), b.wrap());
            let (ta, tb) = (texts_in_ctx(wa.as_ref(), spec.ctx, st)?, texts_in_ctx(wb.as_ref(), spec.ctx, st)?);
            check_texts(ck.name(), &ta, &tb, &sa, &sb, &format!("wrapped in BlockRng after {} generate() calls", i))?;
            if i == spec.pre + 1 {
                // (the texts after the last generate() have been compared)
                break;
            }
            let prime: Option<Vec<u64>> = match spec.aux.first().copied().unwrap_or(0) {
                1 => {
                    let mut c = a.boxed_clone();
                    Some(sut(guard(|| c.generate()), "generate")?)
                }
                2 => {
                    let mut c = b.boxed_clone();
                    Some(sut(guard(|| c.generate()), "generate")?)
                }
                3 => Some(vec![0]),
                4 => Some(vec![u64::MAX]),
                _ => None,
            };
            match prime {
                Some(x) => {
                    st.count("probe:core_generate_into_primed_buffer");
                    sut(guard(|| a.generate_primed(&x)), "generate")?;
                    sut(guard(|| b.generate_primed(&x)), "generate")?;
                }
                None => {
                    sut(guard(|| a.generate()), "generate")?;
                    sut(guard(|| b.generate()), "generate")?;
                }
            }
        }
        Ok(())
    }
}
