//! C16 — JitterRng hands out every collected 64-bit value at most once, clones included.
//!
//! Oracle: a twin JitterRng over the same clock script is driven in lock-step but only ever
//! with "fresh collection" calls (next_u64 where the generator under test serves a first
//! next_u32, nothing where it serves the second half). This makes the check independent of
//! WHAT a collection computes (that is C12): it only decides which calls collect, which reuse,
//! and how many timer readings each takes.

use super::c12::{gen_jitter_spec, jitter_fault_set};
use super::common::*;
use crate::clockgen::count_fired;
use crate::engine::viol;
use crate::gens::{build_jitter, guard, DynGen, SutFail};
use crate::prng::Prng;
use crate::spec::{Op, RunEnd, Scenario, Spec, Stats, Tier};
use std::sync::Arc;

pub struct C16;

// Static part: a `Copy` implementation would let `Cell::clone`, `#[derive(Clone, Copy)]` wrappers and
// plain assignment duplicate a generator WITHOUT going through `Clone::clone` (the place where the
// pending half is dropped): such a duplicate is a clone that still holds the original's half.
// Evaluated with inherent-const shadowing so that the harness compiles whatever the answer is.
struct CopyProbe<T>(std::marker::PhantomData<T>);
trait NotCopy {
    const COPY: bool = false;
}
impl<T> NotCopy for CopyProbe<T> {}
#[allow(dead_code)]
impl<T: Copy> CopyProbe<T> {
    const COPY: bool = true;
}
fn jitter_is_copy() -> bool {
    <CopyProbe<rand_jitter::JitterRng<fn() -> u64>>>::COPY
}

const STUCK_CAP: u64 = 60_000;

struct Side {
    g: Box<dyn DynGen>,
}
impl Side {
    fn reads(&self) -> u64 {
        self.g.jitter_ref().unwrap().reads()
    }
    fn arm(&self) {
        self.g.jitter_ref().unwrap().set_cap(self.reads() + STUCK_CAP);
    }
}

enum E {
    End(RunEnd),
}

fn sut<T>(r: Result<T, SutFail>, what: &str) -> Result<T, E> {
    match r {
        Ok(x) => Ok(x),
        Err(SutFail::Panic(m)) => Err(E::End(sut_panic(what, &m))),
        Err(SutFail::ClockAbort) => Err(E::End(RunEnd::Discard("clock_stuck".into()))),
    }
}

fn u64_of(s: &mut Side) -> Result<(u64, u64), E> {
    s.arm();
    let r0 = s.reads();
    let g = s.g.as_mut();
    let v = sut(guard(|| g.next_u64()), "next_u64")?;
    Ok((v, s.reads() - r0))
}
fn u32_of(s: &mut Side) -> Result<(u32, u64), E> {
    s.arm();
    let r0 = s.reads();
    let g = s.g.as_mut();
    let v = sut(guard(|| g.next_u32()), "next_u32")?;
    Ok((v, s.reads() - r0))
}
fn fill_of(s: &mut Side, n: usize) -> Result<(Vec<u8>, u64), E> {
    s.arm();
    if n > 256 {
        // a long fill legitimately needs many readings (at most 255 rounds + priming, 3 readings each)
        s.g.jitter_ref().unwrap().set_cap(s.reads() + STUCK_CAP + (n as u64 / 8 + 1) * (1 + 3 * 256));
    }
    let r0 = s.reads();
    let g = s.g.as_mut();
    let v = sut(
        guard(|| {
            let mut b = vec![0x3Cu8; n];
            g.fill_bytes(&mut b);
            b
        }),
        "fill_bytes",
    )?;
    Ok((v, s.reads() - r0))
}

struct Track {
    /// a half is pending on the generator under test: the value it was taken from
    pending: Option<u64>,
    /// fill_bytes(0) was called while the half was pending: it may or may not have survived
    optional: bool,
    rounds: u64,
}

/// One output call on (real, twin) with the C16 clauses. `tag` marks calls made on a clone.
fn out_step(real: &mut Side, twin: &mut Side, tr: &mut Track, op: &Op, i: usize, st: &mut Stats, tag: &str) -> Result<(), E> {
    let key = |w: &str| format!("JitterRng:{}{}", tag, w);
    match op {
        Op::U32 => {
            let (v, used) = u32_of(real)?;
            if v == 0 {
                st.count("probe:u32_output_zero");
            }
            st.log.u64(v as u64);
            st.log.u64(used);
            let opt = std::mem::replace(&mut tr.optional, false);
            if opt && used != 0 {
                // the half did not survive fill_bytes(0): this is a fresh first half
                tr.pending = None;
            }
            if let Some(p) = tr.pending.take() {
                st.count("probe:second_half_served");
                if used != 0 {
                    return Err(E::End(viol("C16/second_half_reads_timer", key("next_u32"), format!("op #{}: the second of two consecutive next_u32 read the timer {} times", i, used))));
                }
                if v != (p >> 32) as u32 {
                    return Err(E::End(viol("C16/second_half_wrong", key("next_u32"), format!("op #{}: second next_u32 = {:#010x}, high half of the value next_u64 would have returned is {:#010x}", i, v, (p >> 32) as u32))));
                }
            } else {
                let (w, tused) = u64_of(twin)?;
                st.count("probe:first_half_served");
                if used < tr.rounds {
                    return Err(E::End(viol("C16/fresh_collection_too_few_reads", key("next_u32"), format!("op #{}: next_u32 with no half pending read the timer {} times, rounds = {}", i, used, tr.rounds))));
                }
                if v != w as u32 || used != tused {
                    return Err(E::End(viol("C16/first_half_wrong", key("next_u32"), format!("op #{}: next_u32 = {:#010x} after {} readings; next_u64 in its place returns {:#018x} after {} readings", i, v, used, w, tused))));
                }
                tr.pending = Some(w);
            }
        }
        Op::U64 => {
            let had = tr.pending.take().is_some();
            tr.optional = false;
            let (v, used) = u64_of(real)?;
            let (w, tused) = u64_of(twin)?;
            st.log.u64(v);
            st.log.u64(used);
            if had {
                st.count("probe:u64_discards_half");
            }
            if used < tr.rounds {
                return Err(E::End(viol("C16/fresh_collection_too_few_reads", key("next_u64"), format!("op #{}: next_u64 (half pending: {}) read the timer {} times, rounds = {}", i, had, used, tr.rounds))));
            }
            if v != w || used != tused {
                return Err(E::End(viol("C16/stale_or_reused_value", key("next_u64"), format!("op #{}: next_u64 (half pending: {}) = {:#018x} after {} readings; a generator that never had a half pending returns {:#018x} after {}", i, had, v, used, w, tused))));
            }
        }
        Op::Fill(n) => {
            let n = *n as usize;
            let had = tr.pending;
            let (b, used) = fill_of(real, n)?;
            st.log.bytes(&b);
            st.log.u64(used);
            if n == 0 {
                // no call is made; whether a pending half survives is not stated: accept both
                if used != 0 {
                    return Err(E::End(viol("C16/fill0_reads_timer", key("fill_bytes"), format!("op #{}: fill_bytes(0) read the timer {} times", i, used))));
                }
                if had.is_some() {
                    st.count("probe:fill0_with_half");
                    // disambiguated by the next call: keep `pending`, but mark as optional
                    tr.pending = had;
                    tr.optional = true;
                    return Ok(());
                }
                return Ok(());
            }
            tr.optional = false;
            if let (Some(p), true) = (had, n <= 4) {
                // fill_bytes(1..=4) with a half pending IS one next_u32 (documented composition):
                // taking the pending half (no bit is handed out twice) or discarding it are both fine
                st.count("probe:small_fill_with_half");
                if used == 0 {
                    let hi = ((p >> 32) as u32).to_le_bytes();
                    tr.pending = None;
                    if b[..] != hi[..n] {
                        return Err(E::End(viol("C16/second_half_wrong", key("fill_bytes"), format!("op #{}: fill_bytes({}) took no timer reading but did not return the pending half", i, n))));
                    }
                    return Ok(());
                }
            }
            tr.pending = None;
            // the twin never calls fill_bytes: it makes the fresh collections the documented composition
            // consists of (n/8 values, then one more value for a tail of 5..7 bytes or one next_u32 for
            // a tail of 1..4 bytes), so every 8-byte chunk of the real call is held against a collection
            // of its own
            let (w, tused) = {
                let mut bytes = Vec::with_capacity(n + 8);
                let mut used_t = 0u64;
                for _ in 0..n / 8 {
                    let (v, u) = u64_of(twin)?;
                    bytes.extend_from_slice(&v.to_le_bytes());
                    used_t += u;
                }
                let tail = n % 8;
                if tail > 4 {
                    let (v, u) = u64_of(twin)?;
                    bytes.extend_from_slice(&v.to_le_bytes()[..tail]);
                    used_t += u;
                } else if tail > 0 {
                    let (v, u) = u32_of(twin)?;
                    bytes.extend_from_slice(&v.to_le_bytes()[..tail]);
                    used_t += u;
                }
                (bytes, used_t)
            };
            let collections = ((n + 7) / 8) as u64;
            if used < tr.rounds * collections {
                return Err(E::End(viol("C16/fresh_collection_too_few_reads", key("fill_bytes"), format!("op #{}: fill_bytes({}) read the timer {} times, needs at least rounds*{} = {}", i, n, used, collections, tr.rounds * collections))));
            }
            if b != w || used != tused {
                return Err(E::End(viol("C16/stale_or_reused_value", key("fill_bytes"), format!("op #{}: fill_bytes({}) (half pending: {}) = {:02x?} after {} readings; a generator that never had a half pending returns {:02x?} after {}", i, n, had.is_some(), &b[..b.len().min(48)], used, &w[..w.len().min(48)], tused))));
            }
            // a tail of 1..4 bytes is one next_u32: it leaves a half pending
            if (1..=4).contains(&(n % 8)) {
                // twin used fill too, so both hold the same pending half; keep them in step by
                // discarding it on both sides with the next fresh call (tracked as unknown)
                tr.pending = None;
                // make both sides forget the half deterministically
                let _ = (u64_of(real)?, u64_of(twin)?);
            }
        }
        _ => {}
    }
    Ok(())
}

impl Scenario for C16 {
    fn id(&self) -> &'static str {
        "C16"
    }
    fn level(&self) -> &'static str {
        "exploration"
    }
    fn runs(&self, tier: Tier) -> u64 {
        match tier {
            Tier::Quick => 60_000,
            Tier::Thorough => 3_000_000,
        }
    }
    fn generate(&self, rng: &mut Prng, _tier: Tier) -> Spec {
        gen_jitter_spec(rng, "C16", &jitter_fault_set(), true)
    }
    fn execute(&self, spec: &Spec, st: &mut Stats) -> RunEnd {
        let clock = Arc::new(spec.clock.clone().expect("clock"));
        st.evals += 1;
        st.count("probe:static_copy_probe");
        if jitter_is_copy() {
            return viol(
                "C16/copy_bypasses_clone",
                "JitterRng:Copy",
                "JitterRng<fn() -> u64> is Copy: a duplicate made by copying (Cell::clone, derive(Clone, Copy) wrappers, assignment) does not go through Clone::clone and keeps the half its original still holds".to_string(),
            );
        }
        #[cfg(feature = "jstd")]
        if spec.pre_new {
            // the real-clock constructor: should what it returns be cloneable, a clone taken before any output
            // must collect for itself (two fresh 64-bit collections from a real clock are equal with
            // probability 2^-64; nothing read from the real clock is logged)
            use crate::gens::{CloneNo, CloneProbe, CloneYes};
            use rand_core::RngCore;
            let r = guard(|| -> Option<bool> {
                let mut j = rand_jitter::JitterRng::new().ok()?;
                let mut c = (&CloneProbe(&j)).try_clone()?;
                Some(j.next_u64() == c.next_u64())
            });
            st.count("probe:real_clock_new");
            if let Err(SutFail::Panic(m)) = &r {
                return sut_panic("JitterRng::new", m);
            }
            if let Ok(Some(true)) = r {
                return viol(
                    "C16/clone_returns_original_value",
                    "JitterRng:new().clone()",
                    "a clone of JitterRng::new(), taken before any output, returned the same first 64-bit value as the original: it did not collect for itself".to_string(),
                );
            }
        }
        let mut real = Side { g: build_jitter(clock.clone()) };
        let mut twin = Side { g: build_jitter(clock.clone()) };
        let mut tr = Track { pending: None, optional: false, rounds: 64 };
        if let Some(r) = spec.rounds {
            if r == 0 {
                return RunEnd::Discard("rounds0".into());
            }
            real.g.jitter().unwrap().set_rounds(r);
            twin.g.jitter().unwrap().set_rounds(r);
            tr.rounds = r as u64;
        }
        let marks = decode_marks(&spec.aux);
        let res = (|| -> Result<(), E> {
            for (i, op) in spec.ops.iter().enumerate() {
                st.log.u64(op.code());
                let rb = match tr.rounds {
                    1 => 0u64,
                    2..=8 => 1,
                    9..=64 => 2,
                    _ => 3,
                };
                let inner_code = if let Op::CloneThen(x) = op { x.code() } else { 0 };
                st.sig(&[op.code(), inner_code, tr.pending.is_some() as u64, rb, if let Op::Fill(n) = op { (*n).min(9) as u64 } else { 0 }]);
                match op {
                    Op::U32 | Op::U64 | Op::Fill(_) => out_step(&mut real, &mut twin, &mut tr, op, i, st, "")?,
                    Op::TimerStats(var) => {
                        if tr.pending.is_some() {
                            // the statements are silent about timer_stats between two next_u32:
                            // make the situation unambiguous first (discard the half on both sides)
                            continue;
                        }
                        let v = *var;
                        real.arm();
                        twin.arm();
                        let (g, t) = (real.g.as_mut(), twin.g.as_mut());
                        let a = sut(guard(|| g.jitter().unwrap().timer_stats(v)), "timer_stats")?;
                        let b = sut(guard(|| t.jitter().unwrap().timer_stats(v)), "timer_stats")?;
                        st.log.u64(a as u64);
                        let _ = b;
                    }
                    Op::TestTimer => {
                        if tr.pending.is_some() {
                            // silent about a half that is pending across the timer test: keep it unambiguous
                            continue;
                        }
                        st.count("probe:test_timer_in_history");
                        for s in [&mut real, &mut twin] {
                            s.g.jitter_ref().unwrap().set_cap(s.reads() + 1700);
                            let g = s.g.as_mut();
                            let _ = sut(guard(|| g.jitter().unwrap().test_timer().is_ok()), "test_timer")?;
                        }
                    }
                    Op::SetRounds(r) => {
                        if *r == 0 {
                            // rejected with the documented panic on both sides; nothing may change
                            let (g, t) = (real.g.as_mut(), twin.g.as_mut());
                            let a = guard(|| g.jitter().unwrap().set_rounds(0));
                            let b = guard(|| t.jitter().unwrap().set_rounds(0));
                            if !(matches!(a, Err(SutFail::Panic(_))) && matches!(b, Err(SutFail::Panic(_)))) {
                                return Err(E::End(RunEnd::Discard("set_rounds_0_did_not_panic".into())));
                            }
                            continue;
                        }
                        let rr = *r;
                        let (g, t) = (real.g.as_mut(), twin.g.as_mut());
                        sut(guard(|| g.jitter().unwrap().set_rounds(rr)), "set_rounds")?;
                        sut(guard(|| t.jitter().unwrap().set_rounds(rr)), "set_rounds")?;
                        tr.rounds = rr as u64;
                    }
                    Op::Fork => {
                        let (g, t) = (real.g.as_ref(), twin.g.as_ref());
                        let c = sut(guard(|| g.boxed_clone()), "clone")?;
                        let d = sut(guard(|| t.boxed_clone()), "clone")?;
                        if tr.pending.is_some() {
                            st.count("probe:clone_with_half_pending");
                        }
                        st.count("probe:continue_on_clone");
                        real = Side { g: c };
                        twin = Side { g: d };
                        // the clone holds no half: its first output must be a fresh collection
                        tr.pending = None;
                        tr.optional = false;
                    }
                    Op::CloneThen(inner) => {
                        let (g, t) = (real.g.as_ref(), twin.g.as_ref());
                        let c = sut(guard(|| g.boxed_clone()), "clone")?;
                        let d = sut(guard(|| t.boxed_clone()), "clone")?;
                        if tr.pending.is_some() {
                            st.count("probe:clone_with_half_pending");
                        }
                        st.count("probe:clone_first_output");
                        let mut cs = Side { g: c };
                        let mut ds = Side { g: d };
                        let mut ctr = Track { pending: None, optional: false, rounds: tr.rounds };
                        out_step(&mut cs, &mut ds, &mut ctr, inner, i, st, "clone.")?;
                        // the original must still hand out its pending half afterwards (tr unchanged)
                    }
                    Op::CloneFromThen(inner) => {
                        // destination generators that are already in use and hold a pending half,
                        // then overwritten with Clone::clone_from(&current): still "a clone"
                        let (g, t) = (real.g.as_ref(), twin.g.as_ref());
                        let c = sut(guard(|| g.boxed_clone()), "clone")?;
                        let d = sut(guard(|| t.boxed_clone()), "clone")?;
                        let mut cs = Side { g: c };
                        let mut ds = Side { g: d };
                        let _ = u32_of(&mut cs)?; // leaves a half pending in the destination
                        let _ = u64_of(&mut ds)?; // the twin stays half-free
                        {
                            let (src, dst) = (real.g.as_ref(), cs.g.as_mut());
                            sut(guard(|| dst.clone_from_dyn(src)), "clone_from")?;
                            let (src, dst) = (twin.g.as_ref(), ds.g.as_mut());
                            sut(guard(|| dst.clone_from_dyn(src)), "clone_from")?;
                        }
                        if tr.pending.is_some() {
                            st.count("probe:clone_with_half_pending");
                        }
                        st.count("probe:clone_from_into_used_generator");
                        let mut ctr = Track { pending: None, optional: false, rounds: tr.rounds };
                        out_step(&mut cs, &mut ds, &mut ctr, inner, i, st, "clone_from.")?;
                    }
                    _ => {}
                }
            }
            Ok(())
        })();
        count_fired(&marks, real.reads(), st);
        match res {
            Ok(()) => RunEnd::Ok,
            Err(E::End(e)) => e,
        }
    }
    fn rule(&self) -> String {
        "Each run: a JitterRng over a scripted clock (same clock profiles and fault catalogue as C12, including the runs whose first collected value is crafted to have a zero half or to be zero; rounds 1..=255) with a workload biased to next_u32 pairs, next_u32 followed by each other output call, and clone while a half is pending; a twin over the same script is driven in lock-step with fresh-collection calls only. Per call, from the clock's read counter: the second of two consecutive next_u32 reads the timer 0 times and the pair equals the twin's next_u64; every other output call reads at least rounds (x number of 64-bit values) times and equals the twin's value (so a pending half is discarded, never re-served); the first output of a clone (made with clone(), or with clone_from() into a generator that is already in use and holds a pending half) reads its own forked clock at least rounds times and equals the first output of the twin's clone (which never had a half pending); the original still serves its pending half afterwards. fill_bytes(1..=4)/fill_bytes(0) with a half pending: both 'takes the pending half, reads nothing' and 'discards it' are accepted. Static part: JitterRng over a Copy timer must not itself be Copy (a copy is a clone made without Clone::clone). distinct_nontrivial = distinct (op kind, op applied to clone, half pending, rounds bucket, fill length bucket) signatures. Histories also contain timer_stats and test_timer (skipped while a half is pending), set_rounds(0) (contained on both sides), the long-haul variant of C12 (2^8 / 2^16 collections from one instance), a real-clock JitterRng::new() first (one run in 40), and the real clock flying by 1 ms .. 1 h per reading (one run in ten).".into()
    }
    fn assumptions(&self) -> Vec<String> {
        vec![
            "what a collection computes is C12's subject; here only which calls collect / reuse and their timer-read counts are decided, against a twin of the same code".into(),
            "timer_stats while a half is pending is skipped (statements silent)".into(),
            "runs whose script keeps the clock stuck for 60000 readings in one call are discarded".into(),
        ]
    }
    fn components(&self) -> serde_json::Value {
        components_std()
    }
    fn required_probes(&self, _tier: Tier) -> Vec<&'static str> {
        vec![
            "probe:second_half_served",
            "probe:u64_discards_half",
            "probe:clone_with_half_pending",
            "probe:clone_first_output",
            "probe:small_fill_with_half",
            "probe:fill0_with_half",
            "probe:clone_from_into_used_generator",
            "probe:u32_output_zero",
        ]
    }
}
