//! C05 — next_u32 / next_u64 / fill_bytes are projections of one forward-only stream.

use super::common::*;
use crate::engine::viol;
use crate::gens::{guard, Kind, SeedSpec, SutFail};
use crate::models::stream::{Call, Out, StreamModel, Words};
use crate::prng::Prng;
use crate::spec::{Op, RunEnd, Scenario, Spec, Stats, Tier};

pub struct C05;

pub fn splitmix_state(seed: &SeedSpec) -> u64 {
    let le = |b: &[u8]| {
        let mut a = [0u8; 8];
        a.copy_from_slice(&b[..8]);
        u64::from_le_bytes(a)
    };
    match seed {
        SeedSpec::Bytes(b) => le(b),
        SeedSpec::U64(x) => *x,
        SeedSpec::FromRng(s) | SeedSpec::TryFromRng(s) => le(&s.bytes(0, 8)),
    }
}

pub fn gen_history_spec(rng: &mut Prng, prop: &str, with_jitter: bool, max_ops: u64) -> Spec {
    let mut spec = Spec { prop: prop.into(), variant: "history".into(), ..Default::default() };
    let jitter = with_jitter && rng.chance(1, 12);
    if jitter {
        spec.kind = Some(Kind::Jitter);
        let rounds = rng.range(1, 6) as u8;
        spec.rounds = Some(rounds);
        spec.pre = rng.below(3) as u32;
        let mut ops = gen_output_ops(rng, Kind::Jitter, max_ops.min(10));
        for o in ops.iter_mut() {
            if let Op::Fill(n) = o {
                *n %= 41;
            }
        }
        spec.ops = ops;
        spec.clock = Some(gen_plain_clock(rng, 600));
        if rng.chance(1, 8) {
            // the first collected value is crafted (zero half / zero): see craft.rs
            let r = rng.range(1, 3) as usize;
            let mask = *rng.pick(&[crate::craft::MASK_ALL, crate::craft::MASK_HI, crate::craft::MASK_LO]);
            if let Some(d) = crate::craft::solve_deltas(rng, r + 1, mask) {
                let mut readings = crate::craft::crafted_prefix(rng, &d);
                let last = *readings.last().unwrap();
                let tail = spec.clock.take().unwrap();
                let first = tail.readings.first().copied().unwrap_or(0);
                readings.extend(tail.readings.iter().map(|x| last.wrapping_add(x.wrapping_sub(first)).wrapping_add(131)));
                spec.clock = Some(crate::seams::clock::ClockSpec { readings, tail_key: tail.tail_key, fork_skews: vec![], freeze: None, abort_at: None });
                spec.rounds = Some(r as u8);
                spec.pre = 0;
                let first_op = match rng.below(5) {
                    0 => Op::U32,
                    1 => Op::U64,
                    2 => Op::Fill(8),
                    3 => Op::Fill(16),
                    _ => Op::Fill(rng.range(1, 24) as u32),
                };
                spec.ops.insert(0, first_op);
                spec.variant = "history_crafted_value".into();
            }
        }
    } else {
        let kind = pick_det_kind(rng);
        spec.kind = Some(kind);
        spec.seed = Some(gen_seed(rng, kind));
        spec.pre = rng.below(pre_range(kind) + 1) as u32;
        spec.ops = gen_output_ops(rng, kind, max_ops);
        maybe_long_haul(rng, &mut spec.ops, 400);
        if rng.chance(1, 60) && make_zero_word_run(rng, &mut spec, false) {
            spec.variant = "history_zero_word_state".into();
        }
    }
    spec
}

fn call_of(op: &Op) -> Option<Call> {
    match op {
        Op::U32 => Some(Call::U32),
        Op::U64 => Some(Call::U64),
        Op::Fill(n) => Some(Call::Fill(*n as usize)),
        _ => None,
    }
}

pub fn do_call(g: &mut dyn crate::gens::DynGen, call: Call) -> Result<Out, SutFail> {
    guard(|| match call {
        Call::U32 => Out::U32(g.next_u32()),
        Call::U64 => Out::U64(g.next_u64()),
        Call::Fill(n) => {
            // the destination starts at a varying offset from an aligned allocation: the result
            // must not depend on where the caller's slice sits in memory
            let off = (n ^ (n >> 3) ^ (n >> 7)) & 15;
            let mut buf = vec![0xA5u8; n + 16];
            g.fill_bytes(&mut buf[off..off + n]);
            Out::Bytes(buf[off..off + n].to_vec())
        }
    })
}

pub fn log_out(st: &mut Stats, o: &Out) {
    match o {
        Out::U32(v) => st.log.u64(*v as u64),
        Out::U64(v) => st.log.u64(*v),
        Out::Bytes(b) => st.log.bytes(b),
    }
}

fn short(o: &Out) -> String {
    match o {
        Out::U32(v) => format!("u32 {:#010x}", v),
        Out::U64(v) => format!("u64 {:#018x}", v),
        Out::Bytes(b) => {
            let h: String = b.iter().take(24).map(|x| format!("{:02x}", x)).collect();
            format!("bytes[{}] {}{}", b.len(), h, if b.len() > 24 { ".." } else { "" })
        }
    }
}

impl Scenario for C05 {
    fn id(&self) -> &'static str {
        "C05"
    }
    fn level(&self) -> &'static str {
        "exploration"
    }
    fn runs(&self, tier: Tier) -> u64 {
        match tier {
            Tier::Quick => 200_000,
            Tier::Thorough => 40_000_000,
        }
    }
    fn generate(&self, rng: &mut Prng, tier: Tier) -> Spec {
        if rng.chance(1, if tier == Tier::Quick { 3_500 } else { 40_000 }) {
            return gen_giant_fill_spec(rng);
        }
        if rng.chance(1, if tier == Tier::Quick { 2_000 } else { 100_000 }) {
            return gen_word_hunt_spec(rng);
        }
        gen_history_spec(rng, "C05", true, 64)
    }

    fn execute(&self, spec: &Spec, st: &mut Stats) -> RunEnd {
        if spec.variant == "giant_fill" {
            return run_giant_fill(spec, st);
        }
        if spec.variant == "word_hunt" {
            return run_word_hunt(spec, st);
        }
        let kind = spec.kind.expect("kind");
        let mut g = match build(spec, false) {
            Ok(g) => g,
            Err(e) => return e,
        };
        // the twin (the definition of the native word stream) lives in another slot than the generator
        // under test: what a generator returns may not depend on where it lives
        crate::gens::set_place(spec.place.wrapping_add(2));
        let twin_g = build(spec, false);
        crate::gens::set_place(spec.place);
        let twin_g = match twin_g {
            Ok(g) => g,
            Err(e) => return e,
        };
        let sx = if kind == Kind::SplitMix64 { Some(splitmix_state(spec.seed.as_ref().unwrap())) } else { None };
        let mut model = StreamModel::new(kind, sx);
        let mut twin = Twin::new(twin_g);
        let native = if kind.word_bits() == 32 { Call::U32 } else { Call::U64 };
        let bw = kind.block_words();
        st.evals += 1;

        let mut calls: Vec<(Call, bool)> = Vec::new();
        for _ in 0..spec.pre {
            calls.push((native, false));
        }
        for op in &spec.ops {
            if let Some(c) = call_of(op) {
                calls.push((c, true));
            }
        }
        // drain: two blocks of native calls prove that nothing was skipped or repeated
        let drain = if kind == Kind::Jitter { 2 } else { (2 * bw).max(4) };
        for _ in 0..drain {
            calls.push((native, false));
        }
        let n_hist = spec.pre as usize + spec.ops.len();

        for (i, (call, is_op)) in calls.iter().enumerate() {
            let cur = model.cur();
            if *is_op {
                let idx = cur.c % bw.max(1);
                let (code, n) = match call {
                    Call::U32 => (1u64, 0usize),
                    Call::U64 => (2, 0),
                    Call::Fill(n) => (3, *n),
                };
                let wb = (kind.word_bits() / 8) as usize;
                let words_needed = match call {
                    Call::U32 => 1,
                    Call::U64 => {
                        if wb == 4 {
                            2
                        } else {
                            1
                        }
                    }
                    Call::Fill(n) => (*n + wb - 1) / wb,
                };
                let straddle = kind.buffered() && idx != 0 && idx + words_needed > bw;
                st.sig(&[kind.id(), code, idx as u64, cur.half as u64, (n % 8) as u64, straddle as u64, (n > 0) as u64]);
                if kind.buffered() && wb == 4 && matches!(call, Call::U64) && idx == bw - 1 {
                    st.count("probe:u64_straddle");
                }
                if straddle && matches!(call, Call::Fill(_)) {
                    st.count("probe:fill_straddle");
                }
                if cur.half && idx == 0 && cur.c > 0 && matches!(call, Call::U32) {
                    st.count("probe:half_at_block_end");
                }
                if cur.half && matches!(call, Call::Fill(0)) {
                    st.count("probe:n0_with_half");
                }
                if let Call::Fill(n) = call {
                    match n % 8 {
                        1..=4 => st.count("probe:tail_1_4"),
                        5..=7 => st.count("probe:tail_5_7"),
                        _ => {}
                    }
                    if *n == 0 {
                        st.count("probe:fill_0");
                    }
                    if *n >= 4 * 65_536 {
                        st.count("probe:long_haul");
                    }
                }
                if cur.half && matches!(call, Call::U32) {
                    st.count("probe:second_half_served");
                }
            }
            if kind == Kind::Jitter {
                let r = g.jitter_ref().unwrap().reads();
                g.jitter_ref().unwrap().set_cap(r + 200_000);
                let r2 = twin.g.jitter_ref().unwrap().reads();
                twin.g.jitter_ref().unwrap().set_cap(r2 + 400_000);
            }
            let out = match do_call(g.as_mut(), *call) {
                Ok(o) => o,
                Err(SutFail::Panic(m)) => return sut_panic("op", &m),
                Err(SutFail::ClockAbort) => return RunEnd::Discard("clock_stuck".into()),
            };
            log_out(st, &out);
            let res = model.observe(*call, &out, &mut twin);
            if let Some(f) = &twin.failed {
                return match f {
                    SutFail::Panic(m) => sut_panic("twin", m),
                    SutFail::ClockAbort => RunEnd::Discard("clock_stuck".into()),
                };
            }
            if let Err(expected) = res {
                let class = if i >= n_hist { "C05/drain_mismatch" } else { "C05/value_mismatch" };
                let what = match call {
                    Call::U32 => "next_u32".to_string(),
                    Call::U64 => "next_u64".to_string(),
                    Call::Fill(n) => format!("fill_bytes({})", n),
                };
                return viol(
                    class,
                    format!("{}:{}", kind.name(), what.split('(').next().unwrap()),
                    format!(
                        "{} call #{} {} at word index {} (buffer index {}, half pending {}): got {}, model allows {}",
                        kind.name(),
                        i,
                        what,
                        cur.c,
                        cur.c % bw.max(1),
                        cur.half,
                        short(&out),
                        expected.iter().map(short).collect::<Vec<_>>().join(" | ")
                    ),
                );
            }
        }
        let _ = twin.word(0);
        RunEnd::Ok
    }

    fn rule(&self) -> String {
        "Each run: one generator type (20 types incl. JitterRng over a scripted clock), one seeding route, a native-width pre-advance of 0..=block_len+2 calls (every buffer index / half flag is a start state), then 1..64 operations from a per-run mix of next_u32/next_u64/fill_bytes(n) with n in {0, 1..9, block-9..block+9, 2*block+-9, 3*block+7, rare 8 KiB}, then a 2-block native drain. Every returned value/byte is compared with the projection table of the statement applied to the word stream of an identically seeded twin driven with native-width calls only. distinct_nontrivial = number of distinct (type, op kind, buffer index at call, half flag, n mod 8, straddles-refill, n>0) signatures reached by operations. One run in four makes every call the way generic code resolves it (trait-qualified) instead of the concrete-type method/path call; JitterRng runs may have the real clock flying (wall-clock seam). (word_hunt, one run in 2000) HC-128 / ISAAC produce 2^28 words in bulk; where the stream holds a zero, all-ones or repeated word, fresh clones positioned on / one / two words before it make 13 short call sequences whose results the stream itself defines. The whole check is repeated in a build with -C target-cpu=native.".into()
    }
    fn assumptions(&self) -> Vec<String> {
        vec![
            "the twin's native-width calls define the native word stream W (whether W equals the published reference algorithm is C01-C04, not claimed)".into(),
            "SplitMix64::next_u32 is checked against the dsiutils Mix4 finalizer on the counter seed+k*PHI written out in the harness".into(),
            "fill_bytes(0) on Isaac64Rng with a half pending: the statement is silent, the model accepts both 'half kept' and 'half dropped'".into(),
            "sampled, not exhaustive: a clean batch is evidence, not proof".into(),
        ]
    }
    fn components(&self) -> serde_json::Value {
        components_std()
    }
    fn required_probes(&self, _tier: Tier) -> Vec<&'static str> {
        vec![
            "probe:u64_straddle",
            "probe:fill_straddle",
            "probe:half_at_block_end",
            "probe:n0_with_half",
            "probe:tail_1_4",
            "probe:tail_5_7",
            "probe:second_half_served",
            "probe:long_haul",
        ]
    }
}


// ------------------------------------------------------------------------------------------
// One request of 2 GiB / 4 GiB and a little more: lengths that no longer fit in 31 / 32 bits.
// The destination is 4 GiB of VIRTUAL address space backed by one 4 MiB piece of memory mapped
// over and over (the pages alias each other), so the run costs 4 MiB, not 4 GiB. What is checked:
// the final content of the window (= the last 4 MiB the call wrote, tail included) and where the
// generator stands afterwards, against a twin that makes the documented calls one by one.
// ------------------------------------------------------------------------------------------

const SEG: usize = 4 << 20;

struct Aliased {
    base: *mut u8,
    total: usize,
}

impl Aliased {
    fn new(len: usize) -> Option<Aliased> {
        unsafe {
            let fd = libc::memfd_create(b"rngsim-window\0".as_ptr() as *const libc::c_char, 0);
            if fd < 0 {
                return None;
            }
            if libc::ftruncate(fd, SEG as libc::off_t) != 0 {
                libc::close(fd);
                return None;
            }
            let total = (len + SEG - 1) / SEG * SEG;
            let base = libc::mmap(std::ptr::null_mut(), total, libc::PROT_NONE, libc::MAP_PRIVATE | libc::MAP_ANONYMOUS | libc::MAP_NORESERVE, -1, 0);
            if base == libc::MAP_FAILED {
                libc::close(fd);
                return None;
            }
            let mut off = 0usize;
            while off < total {
                let p = libc::mmap((base as *mut u8).add(off) as *mut libc::c_void, SEG, libc::PROT_READ | libc::PROT_WRITE, libc::MAP_SHARED | libc::MAP_FIXED, fd, 0);
                if p == libc::MAP_FAILED {
                    libc::munmap(base, total);
                    libc::close(fd);
                    return None;
                }
                off += SEG;
            }
            libc::close(fd);
            Some(Aliased { base: base as *mut u8, total })
        }
    }
}

impl Drop for Aliased {
    fn drop(&mut self) {
        unsafe {
            libc::munmap(self.base as *mut libc::c_void, self.total);
        }
    }
}

fn gen_giant_fill_spec(rng: &mut Prng) -> Spec {
    let mut spec = Spec { prop: "C05".into(), variant: "giant_fill".into(), ..Default::default() };
    let kind = pick_det_kind(rng);
    spec.kind = Some(kind);
    spec.seed = Some(gen_seed(rng, kind));
    spec.pre = rng.below(pre_range(kind).min(40) + 1) as u32;
    let base: u64 = if rng.chance(2, 3) { 1 << 32 } else { 1 << 31 };
    let extra = *rng.pick(&[0u64, 8, 16, 24, 3, 5, 13, 64, 100]);
    // aux: length, offset of the destination from a 16-aligned address
    spec.aux = vec![base + extra, rng.below(16)];
    spec
}

fn run_giant_fill(spec: &Spec, st: &mut Stats) -> RunEnd {
    let kind = spec.kind.expect("kind");
    st.evals += 1;
    let n = spec.aux[0] as usize;
    let off = spec.aux[1] as usize % 16;
    let mut g = match build(spec, false) {
        Ok(g) => g,
        Err(e) => return e,
    };
    crate::gens::set_place(spec.place.wrapping_add(2));
    let twin = build(spec, false);
    crate::gens::set_place(spec.place);
    let mut twin = match twin {
        Ok(g) => g,
        Err(e) => return e,
    };
    let native32 = kind.word_bits() == 32;
    for _ in 0..spec.pre {
        let r = guard(|| if native32 { (g.next_u32() as u64, twin.next_u32() as u64) } else { (g.next_u64(), twin.next_u64()) });
        if let Err(SutFail::Panic(m)) = r {
            return sut_panic("pre", &m);
        }
    }
    let win = match Aliased::new(n + 16) {
        Some(w) => w,
        None => return RunEnd::Discard("no_aliased_mapping".into()),
    };
    st.count("probe:giant_fill");
    // the call under test
    let dest: &mut [u8] = unsafe { std::slice::from_raw_parts_mut(win.base.add(off), n) };
    let gm = g.as_mut();
    if let Err(e) = guard(|| gm.fill_bytes(dest)) {
        return match e {
            SutFail::Panic(m) => sut_panic("fill_bytes", &m),
            SutFail::ClockAbort => RunEnd::Discard("clock_abort".into()),
        };
    }
    // what the window must hold now: byte o of the request lives at (off + o) % SEG; later bytes overwrite
    // earlier ones. The twin makes the calls the documented composition consists of.
    let mut expect = vec![0u8; SEG];
    let block = matches!(kind, Kind::Hc128 | Kind::Isaac | Kind::Isaac64);
    let tw = twin.as_mut();
    let r = guard(|| {
        // Everything but the last SEG + 4096 bytes only has to be CONSUMED: the twin draws it in requests of
        // 1 MiB (a multiple of every word size, so the composition is the same words; requests of that size
        // are what the ordinary histories check), which is as fast as the call under test.
        let keep = SEG + 4096;
        let bulk = if n > keep { (n - keep) / (1 << 20) * (1 << 20) } else { 0 };
        let mut scratch = vec![0u8; 1 << 20];
        let mut o = 0usize;
        while o < bulk {
            tw.fill_bytes(&mut scratch);
            o += 1 << 20;
        }
        let mut put = |bytes: &[u8], o: &mut usize| {
            for b in bytes {
                if *o < n {
                    expect[(off + *o) % SEG] = *b;
                    *o += 1;
                }
            }
        };
        // the rest, call by call as the documented composition makes them
        if block {
            while o < n {
                if native32 {
                    put(&tw.next_u32().to_le_bytes(), &mut o);
                } else {
                    put(&tw.next_u64().to_le_bytes(), &mut o);
                }
            }
        } else {
            while n - o >= 8 {
                put(&tw.next_u64().to_le_bytes(), &mut o);
            }
            let tail = n - o;
            if tail > 4 {
                put(&tw.next_u64().to_le_bytes()[..tail], &mut o);
            } else if tail > 0 {
                put(&tw.next_u32().to_le_bytes()[..tail], &mut o);
            }
        }
    });
    if let Err(SutFail::Panic(m)) = r {
        return sut_panic("twin", &m);
    }
    let got: &[u8] = unsafe { std::slice::from_raw_parts(win.base, SEG) };
    st.log.bytes(&got[..64]);
    st.sig(&[kind.id(), 99, (n >> 31) as u64, (n % 8) as u64]);
    if let Some(p) = (0..SEG).find(|p| got[*p] != expect[*p]) {
        return viol(
            "C05/value_mismatch",
            format!("{}:giant_fill", kind.name()),
            format!(
                "{}: fill_bytes({}) (= 2^{} + {}) into a destination whose pages alias one 4 MiB window: the window differs from what the documented composition writes last, first at window offset {} (got {:#04x}, expected {:#04x})",
                kind.name(), n, if n >> 32 != 0 { 32 } else { 31 }, n & 0x7fff_ffff & !(1usize << 31), p, got[p], expect[p]
            ),
        );
    }
    // and the generator stands where the composition leaves it
    for i in 0..4 {
        let r = guard(|| if native32 { (g.next_u32() as u64, twin.next_u32() as u64) } else { (g.next_u64(), twin.next_u64()) });
        match r {
            Ok((a, b)) => {
                if a != b {
                    return viol(
                        "C05/value_mismatch",
                        format!("{}:giant_fill", kind.name()),
                        format!("{}: after fill_bytes({}) native output #{} is {:#x}, the word stream continues with {:#x}", kind.name(), n, i, a, b),
                    );
                }
            }
            Err(SutFail::Panic(m)) => return sut_panic("after", &m),
            Err(_) => return RunEnd::Discard("clock_abort".into()),
        }
    }
    RunEnd::Ok
}


// ------------------------------------------------------------------------------------------
// Word hunt: values that cannot be solved for. The key stream of HC-128 (non-linear, no serde, no
// public state) takes a special value - a zero word, an all-ones word, a word equal to its
// predecessor - once in 2^32 words, and nothing but producing the stream finds one. A hunt
// produces 2^28 words in 1 MiB bulk fills, keeps a clone from the start of each chunk, and when a
// chunk holds a special word it positions fresh clones on, one before and two before that word and
// makes the short calls there (fills of 1..12 bytes, next_u32, next_u64, in several orders). The
// chunk itself is the reference: each call must return the bytes of the next ceil(n/4) words.
// (ISAAC too: its states can be manufactured, this is the unmanufactured route.)
// ------------------------------------------------------------------------------------------

fn gen_word_hunt_spec(rng: &mut Prng) -> Spec {
    let mut spec = Spec { prop: "C05".into(), variant: "word_hunt".into(), ..Default::default() };
    let kind = *rng.pick(&[Kind::Hc128, Kind::Hc128, Kind::Hc128, Kind::Isaac]);
    spec.kind = Some(kind);
    spec.seed = Some(gen_seed(rng, kind));
    // aux[0]: chunks of 1 MiB (2^18 words each)
    spec.aux = vec![1024];
    spec
}

fn run_word_hunt(spec: &Spec, st: &mut Stats) -> RunEnd {
    let kind = spec.kind.expect("kind");
    st.evals += 1;
    let mut g = match build(spec, false) {
        Ok(g) => g,
        Err(e) => return e,
    };
    const CHUNK: usize = 1 << 20;
    let chunks = spec.aux.first().copied().unwrap_or(1);
    let mut buf = vec![0u8; CHUNK];
    let mut prev = 0x5EED_0001u32;
    let battery: [(usize, &[Call]); 13] = [
        (0, &[Call::Fill(4), Call::U32, Call::U64]),
        (0, &[Call::Fill(5), Call::U32]),
        (0, &[Call::Fill(7), Call::Fill(4)]),
        (0, &[Call::U32, Call::U32]),
        (0, &[Call::U64, Call::U32]),
        (0, &[Call::Fill(1), Call::Fill(4)]),
        (0, &[Call::Fill(6), Call::U64]),
        (0, &[Call::Fill(8), Call::Fill(3)]),
        (1, &[Call::Fill(8), Call::U32]),
        (1, &[Call::U64, Call::U32]),
        (1, &[Call::Fill(4), Call::Fill(4), Call::U32]),
        (1, &[Call::U32, Call::Fill(3), Call::U32]),
        (2, &[Call::Fill(12), Call::U32]),
    ];
    for c in 0..chunks {
        let chk = g.boxed_clone();
        {
            let gm = g.as_mut();
            let bm = &mut buf;
            if let Err(SutFail::Panic(m)) = guard(|| gm.fill_bytes(bm)) {
                return sut_panic("fill_bytes", &m);
            }
        }
        let words: Vec<u32> = buf.chunks_exact(4).map(|b| u32::from_le_bytes([b[0], b[1], b[2], b[3]])).collect();
        let mut specials: Vec<usize> = Vec::new();
        for (i, w) in words.iter().enumerate() {
            if *w == 0 || *w == u32::MAX || *w == prev {
                specials.push(i);
            }
            prev = *w;
        }
        for p in specials {
            if p < 2 || p + 16 > words.len() {
                continue;
            }
            st.count("probe:special_word_found");
            for (back, calls) in battery.iter() {
                let start = p - back;
                let mut t = chk.boxed_clone();
                let mut skip = vec![0u8; 4 * start];
                {
                    let tm = t.as_mut();
                    let sm = &mut skip;
                    if let Err(SutFail::Panic(m)) = guard(|| tm.fill_bytes(sm)) {
                        return sut_panic("fill_bytes", &m);
                    }
                }
                let mut at = start;
                for (k, call) in calls.iter().enumerate() {
                    let out = match do_call(t.as_mut(), *call) {
                        Ok(o) => o,
                        Err(SutFail::Panic(m)) => return sut_panic("op", &m),
                        Err(SutFail::ClockAbort) => return RunEnd::Discard("clock_stuck".into()),
                    };
                    let (expect, used) = match call {
                        Call::U32 => (Out::U32(words[at]), 1),
                        Call::U64 => (Out::U64(words[at] as u64 | (words[at + 1] as u64) << 32), 2),
                        Call::Fill(n) => {
                            let nw = (*n + 3) / 4;
                            let mut b: Vec<u8> = words[at..at + nw].iter().flat_map(|w| w.to_le_bytes()).collect();
                            b.truncate(*n);
                            (Out::Bytes(b), nw)
                        }
                    };
                    if out != expect {
                        let what = match call {
                            Call::U32 => "next_u32".to_string(),
                            Call::U64 => "next_u64".to_string(),
                            Call::Fill(n) => format!("fill_bytes({})", n),
                        };
                        return viol(
                            "C05/value_mismatch",
                            format!("{}:{}", kind.name(), what.split('(').next().unwrap()),
                            format!(
                                "{}: word {} of the stream is {:#010x} (chunk {} word {}); a clone positioned {} word(s) before it, call #{} {}: got {}, the stream says {}",
                                kind.name(),
                                c as usize * (CHUNK / 4) + p,
                                words[p],
                                c,
                                p,
                                back,
                                k,
                                what,
                                short(&out),
                                short(&expect)
                            ),
                        );
                    }
                    at += used;
                }
            }
        }
    }
    st.add("probe:word_hunt_mebibytes", chunks);
    st.log.u64(prev as u64);
    st.sig(&[kind.id(), 4343]);
    RunEnd::Ok
}
