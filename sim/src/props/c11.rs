//! C11 — a serde snapshot at any point restores a generator with the identical future.
//! Crash/restart fault: the snapshot bytes are the only thing that survives.

use super::common::*;
use crate::engine::viol;
use crate::gens::{guard, restore, DynGen, Kind, SnapFmt, SutFail, DET_KINDS};
use crate::models::stream::{Call, Out};
use crate::prng::Prng;
use crate::spec::{Op, RunEnd, Scenario, Spec, Stats, Tier, Violation};

pub struct C11;

enum E {
    End(RunEnd),
}
fn sut<T>(r: Result<T, SutFail>, what: &str) -> Result<T, E> {
    match r {
        Ok(x) => Ok(x),
        Err(SutFail::Panic(m)) => Err(E::End(sut_panic(what, &m))),
        Err(SutFail::ClockAbort) => Err(E::End(RunEnd::Discard("clock_abort".into()))),
    }
}

fn call_of(op: &Op) -> Option<Call> {
    match op {
        Op::U32 => Some(Call::U32),
        Op::U64 => Some(Call::U64),
        Op::Fill(n) => Some(Call::Fill(*n as usize)),
        _ => None,
    }
}

fn apply(g: &mut dyn DynGen, op: &Op) -> Result<Option<Out>, SutFail> {
    match op {
        Op::Jump => guard(|| {
            g.jump();
            None
        }),
        Op::LongJump => guard(|| {
            g.long_jump();
            None
        }),
        o => match call_of(o) {
            Some(c) => super::c05::do_call(g, c).map(Some),
            None => Ok(None),
        },
    }
}

fn fmt_of(x: u64) -> SnapFmt {
    match x % 17 {
        13 => SnapFmt::CompactValue,
        14 => SnapFmt::CompactFlatten,
        15 => SnapFmt::CompactTagged,
        16 => SnapFmt::CompactUntagged,
        11 => SnapFmt::BincodeVarint,
        12 => SnapFmt::BincodeBigEndian,
        7 => SnapFmt::Toml,
        8 => SnapFmt::JsonFlatten,
        9 => SnapFmt::JsonTagged,
        10 => SnapFmt::JsonUntagged,
        0 => SnapFmt::Bincode,
        1 => SnapFmt::Json,
        2 => SnapFmt::BincodeFramed,
        3 => SnapFmt::JsonFramed,
        4 => SnapFmt::BincodeReader,
        5 => SnapFmt::JsonReader,
        _ => SnapFmt::JsonValue,
    }
}

/// the formats that buffer the whole document (flatten / tagged / untagged) cost ten times more: drawn less often
fn pick_fmt(rng: &mut Prng) -> u64 {
    if rng.chance(1, 9) {
        *rng.pick(&[8u64, 9, 10, 14, 15, 16])
    } else {
        *rng.pick(&[0u64, 1, 2, 3, 4, 5, 6, 7, 11, 12, 13])
    }
}

fn serde_kinds() -> Vec<Kind> {
    DET_KINDS.iter().copied().filter(|k| k.has_serde()).collect()
}

/// snapshot + restore under the guard; Err(violation) when the image is rejected
fn crash_restore(g: &dyn DynGen, fmt: SnapFmt, at: &str) -> Result<Box<dyn DynGen>, E> {
    let kind = g.kind();
    let img = sut(guard(|| g.snapshot(fmt)), "serialize")?;
    let img = match img {
        Some(i) => i,
        None => return Err(E::End(RunEnd::Discard("no_snapshot_support".into()))),
    };
    match sut(guard(|| restore(kind, fmt, &img)), "deserialize")? {
        Ok(r) => Ok(r),
        Err(e) => Err(E::End(viol(
            "C11/own_snapshot_rejected",
            format!("{}:{:?}", kind.name(), fmt),
            format!("{} {:?} snapshot taken {} cannot be deserialised: {}", kind.name(), fmt, at, e),
        ))),
    }
}

impl Scenario for C11 {
    fn id(&self) -> &'static str {
        "C11"
    }
    fn level(&self) -> &'static str {
        "fault_enumeration"
    }
    fn runs(&self, tier: Tier) -> u64 {
        match tier {
            Tier::Quick => 60_000,
            Tier::Thorough => 3_000_000,
        }
    }

    fn generate(&self, rng: &mut Prng, _tier: Tier) -> Spec {
        let mut spec = Spec { prop: "C11".into(), ..Default::default() };
        if rng.chance(1, 40) {
            // complete sweep over the durable buffer states of IsaacRng / Isaac64Rng
            spec.variant = "sweep".into();
            let kind = if rng.chance(1, 2) { Kind::Isaac } else { Kind::Isaac64 };
            spec.kind = Some(kind);
            spec.seed = Some(gen_seed(rng, kind));
            spec.aux = vec![pick_fmt(rng)];
            return spec;
        }
        spec.variant = "history".into();
        let ks = serde_kinds();
        let kind = match rng.below(10) {
            0..=2 => Kind::Isaac,
            3..=5 => Kind::Isaac64,
            _ => *rng.pick(&ks),
        };
        spec.kind = Some(kind);
        spec.seed = Some(gen_seed(rng, kind));
        spec.pre = rng.below(pre_range(kind) + 1) as u32;
        let mut ops = gen_output_ops(rng, kind, 20);
        if kind.has_jump() && rng.chance(1, 3) {
            let at = rng.below(ops.len() as u64 + 1) as usize;
            ops.insert(at, if rng.chance(1, 2) { Op::Jump } else { Op::LongJump });
        }
        // explicit destructive crash/restore points: the live generator continues as the restored
        // copy (so later crash points are restores of restores)
        for _ in 0..rng.below(4) {
            let at = rng.below(ops.len() as u64 + 1) as usize;
            ops.insert(at, Op::Snap(fmt_of(pick_fmt(rng))));
        }
        spec.ops = ops;
        // aux[0]: format used at the enumerated (non-destructive) crash points
        spec.aux = vec![pick_fmt(rng)];
        if matches!(kind, Kind::Isaac | Kind::Isaac64) && rng.chance(1, 6) {
            // aux[1] = u64::MAX: all crash points; aux[2] = 1 + k: word k of the durable state is zero
            spec.aux.push(u64::MAX);
            spec.aux.push(1 + rng.below(512));
        } else if matches!(kind, Kind::Isaac | Kind::Isaac64) && rng.chance(1, 6) {
            // aux[2] = 1000 + j: far along in the stream - the block counter is about to wrap (or to pass
            // 2^24 / 2^32): the history then snapshots in the block right after the wrap
            spec.aux.push(u64::MAX);
            spec.aux.push(1000 + rng.below(8));
            // make sure the history crosses at least one refill
            spec.ops.insert(0, Op::Fill(kind.block_bytes() as u32 + 9));
        }
        spec
    }

    fn execute(&self, spec: &Spec, st: &mut Stats) -> RunEnd {
        let r = match spec.variant.as_str() {
            "sweep" => self.sweep(spec, st),
            _ => self.history(spec, st),
        };
        match r {
            Ok(()) => RunEnd::Ok,
            Err(E::End(e)) => e,
        }
    }

    fn rule(&self) -> String {
        "Each run (history): one of the 18 serialisable generator types (IsaacRng/Isaac64Rng over-weighted), any seeding route, native pre-advance 0..=block_len+2, a history of 1..20 next_u32/next_u64/fill_bytes/jump ops with up to 3 destructive crash points (live generator := restore(snapshot(live)), so later snapshots are restores of restores). In one ISAAC history out of six one word of the durable state (a buffered result word or a word of the core's mem) is first set to 0 through the image - generated zero words are far too rare (2^-32 per word) to wait for. The crash point is ENUMERATED: after the pre-advance and after every operation the live generator is serialised (bincode or serde_json; alone, or 'framed' as one member of a larger snapshot `(generator, marker, generator, marker)` whose later members must still be readable; or read back through `deserialize_from` / `from_reader` over a reader that delivers 1..5 bytes per call; or through a `serde_json::Value` document), the original is kept, and a copy restored from the bytes alone runs the whole remaining history plus a 3-block drain; the twin that never serialised, the original and every restored copy must agree value for value, and restored == original where == exists. Each such (history, crash point) pair is one evaluation. (sweep): for one seed, IsaacRng at every index 0..=256 and Isaac64Rng at every (index, half_used) is snapshotted, restored and drained - a complete sweep of the durable buffer states. distinct_nontrivial = distinct (type, format, buffer index at the crash point, half flag) signatures. Further ways the bytes are read back: deserialize_from / from_reader over a reader that delivers 1..5 bytes per call (pretty-printed JSON), and through a serde_json::Value document. Formats also include bincode with its own options() (variable-length integers, zig-zag for signed) and big-endian fixed-width bincode. Four more formats sit on a self-describing data model whose serializer and deserializer answer is_human_readable() == false at every level (direct, flatten, internally tagged, untagged).".into()
    }
    fn assumptions(&self) -> Vec<String> {
        vec![
            "byte-identical re-serialisation and behaviour on corrupted or truncated images are not demanded (not in the statement)".into(),
            "crash points are enumerated completely per sampled history; histories and seeds are sampled".into(),
        ]
    }
    fn components(&self) -> serde_json::Value {
        components_std()
    }
    fn required_probes(&self, _tier: Tier) -> Vec<&'static str> {
        vec![
            "probe:crash_mid_block",
            "probe:crash_half_pending",
            "probe:restore_of_restore",
            "probe:complete_index_half_sweeps",
            "fault:crash_restart",
            "probe:restored_eq_checked",
            "probe:zero_word_state",
        ]
    }
}

impl C11 {
    /// The generator at the start of the history: built through its seeding route, pre-advanced, and -
    /// when `aux[2] = 1 + k` - with ONE WORD OF ITS STATE SET TO ZERO through the durable image
    /// (k < 256: buffered result word k, else state word k - 256 of the core's `mem`). A generated
    /// word or state word that happens to be 0 has probability 2^-32 / 2^-64 per word, so such states
    /// are manufactured instead of waited for; they are ordinary reachable states.
    fn start(&self, spec: &Spec, native: Call, st: &mut Stats) -> Result<Box<dyn DynGen>, E> {
        let kind = spec.kind.expect("kind");
        let mut g = build(spec, false).map_err(E::End)?;
        for _ in 0..spec.pre {
            sut(super::c05::do_call(g.as_mut(), native), "pre")?;
        }
        let k = spec.aux.get(2).copied().unwrap_or(0);
        if k == 0 || !matches!(kind, Kind::Isaac | Kind::Isaac64) {
            return Ok(g);
        }
        if k >= 1000 {
            let max = if kind == Kind::Isaac { u32::MAX as u64 } else { u64::MAX };
            let value = match k - 1000 {
                0 | 1 => max,
                2 => max - 1,
                3 => max - 2,
                4 => (1 << 24) - 1,
                5 => (1u64 << 31) - 1,
                6 => max >> 1,
                _ => (1u64 << 32) - 1,
            };
            return Ok(match far_along(g.as_ref(), value & max) {
                Some(f) => {
                    st.count("probe:far_along_counter");
                    f
                }
                None => g,
            });
        }
        let k = (k - 1) as usize % 512;
        let w = (kind.word_bits() / 8) as usize;
        let mut img = match sut(guard(|| g.snapshot(SnapFmt::Bincode)), "serialize")? {
            Some(i) => i,
            None => return Ok(g),
        };
        // bincode layout of BlockRng / BlockRng64: results[256], index: u64, (half_used: u8,) core { mem[256], a, b, c }
        let core_at = 256 * w + 8 + if kind == Kind::Isaac64 { 1 } else { 0 };
        let at = if k < 256 { k * w } else { core_at + (k - 256) * w };
        if at + w > img.len() {
            return Ok(g);
        }
        for b in img[at..at + w].iter_mut() {
            *b = 0;
        }
        match sut(guard(|| restore(kind, SnapFmt::Bincode, &img)), "deserialize")? {
            Ok(z) => {
                st.count("probe:zero_word_state");
                Ok(z)
            }
            Err(_) => Ok(g),
        }
    }

    fn history(&self, spec: &Spec, st: &mut Stats) -> Result<(), E> {
        let kind = spec.kind.expect("kind");
        let fmt = fmt_of(spec.aux.first().copied().unwrap_or(0));
        // aux[1] (narrowed replay): check only this crash point
        let only: Option<usize> = spec.aux.get(1).and_then(|x| if *x == u64::MAX { None } else { Some(*x as usize) });
        let native = if kind.word_bits() == 32 { Call::U32 } else { Call::U64 };
        // three blocks: a restored core whose hidden counters are off only shows from the second
        // refill after the restore on
        let drain = (3 * kind.block_words()).max(4);

        // the twin never serialises: expected outputs of the whole history and the drain
        let mut twin = self.start(spec, native, st)?;
        let mut expected: Vec<Option<Out>> = Vec::new();
        for op in &spec.ops {
            expected.push(sut(apply(twin.as_mut(), op), "twin")?);
        }
        let mut expected_drain = Vec::new();
        for _ in 0..drain {
            expected_drain.push(sut(super::c05::do_call(twin.as_mut(), native), "twin_drain")?);
        }

        let mut live = self.start(spec, native, st)?;
        // model-free position tracking for signatures
        let wb = (kind.word_bits() / 8) as u64;
        let mut consumed = spec.pre as u64;
        let mut half = false;
        let mut restored_live = false;

        for point in 0..=spec.ops.len() {
            // --- enumerated crash point `point` (before op `point`) ---
            if only.map(|o| o == point).unwrap_or(true) {
                let idx = consumed % kind.block_words() as u64;
                st.evals += 1;
                st.count("fault:crash_restart");
                st.sig(&[kind.id(), fmt as u64, idx, half as u64]);
                if kind.buffered() && idx != 0 {
                    st.count("probe:crash_mid_block");
                }
                if half {
                    st.count("probe:crash_half_pending");
                }
                if restored_live {
                    st.count("probe:restore_of_restore");
                }
                let at = format!("before op #{} (buffer index {}, half pending {})", point, idx, half);
                let narrowed = |v: Violation| -> E {
                    let mut n = spec.clone();
                    n.aux = vec![spec.aux.first().copied().unwrap_or(0), point as u64];
                    if let Some(z) = spec.aux.get(2) {
                        n.aux.push(*z);
                    }
                    let mut v = v;
                    v.narrowed = Some(Box::new(n));
                    E::End(RunEnd::Violation(v))
                };
                let mut copy = match crash_restore(live.as_ref(), fmt, &at) {
                    Ok(c) => c,
                    Err(E::End(RunEnd::Violation(v))) => return Err(narrowed(v)),
                    Err(e) => return Err(e),
                };
                match sut(guard(|| copy.eq_dyn(live.as_ref())), "eq")? {
                    Some(false) => {
                        return Err(narrowed(Violation::new("C11/restored_not_equal", format!("{}:{:?}", kind.name(), fmt), format!("{} restored from a {:?} snapshot taken {} compares unequal to the original", kind.name(), fmt, at))))
                    }
                    Some(true) => st.count("probe:restored_eq_checked"),
                    None => {}
                }
                for (j, op) in spec.ops.iter().enumerate().skip(point) {
                    if matches!(op, Op::Snap(_)) {
                        continue;
                    }
                    let got = sut(apply(copy.as_mut(), op), "restored_op")?;
                    if got != expected[j] {
                        return Err(narrowed(Violation::new(
                            "C11/restored_diverges",
                            format!("{}:{:?}", kind.name(), fmt),
                            format!("{} restored from a {:?} snapshot taken {}: op #{} {:?} returned {:?}, the uninterrupted twin {:?}", kind.name(), fmt, at, j, op, got, expected[j]),
                        )));
                    }
                }
                for (j, e) in expected_drain.iter().enumerate() {
                    let got = sut(super::c05::do_call(copy.as_mut(), native), "restored_drain")?;
                    if got != *e {
                        return Err(narrowed(Violation::new(
                            "C11/restored_diverges",
                            format!("{}:{:?}", kind.name(), fmt),
                            format!("{} restored from a {:?} snapshot taken {}: drain word {} is {:?}, the uninterrupted twin {:?}", kind.name(), fmt, at, j, got, e),
                        )));
                    }
                }
            }
            if point == spec.ops.len() {
                break;
            }
            // --- the live generator performs op `point` ---
            let op = &spec.ops[point];
            if let Op::Snap(f) = op {
                let at = format!("at destructive crash point op #{}", point);
                live = crash_restore(live.as_ref(), *f, &at)?;
                restored_live = true;
                st.count("fault:crash_restart");
                continue;
            }
            let got = sut(apply(live.as_mut(), op), "live_op")?;
            if let Some(o) = &got {
                super::c05::log_out(st, o);
            }
            if got != expected[point] {
                return Err(E::End(viol(
                    if restored_live { "C11/restored_diverges" } else { "C11/serialising_disturbs_original" },
                    format!("{}:{:?}", kind.name(), fmt),
                    format!("{}: live generator (snapshots taken so far: {}, restored from one: {}) op #{} {:?} returned {:?}, the uninterrupted twin {:?}", kind.name(), point + 1, restored_live, point, op, got, expected[point]),
                )));
            }
            match op {
                Op::U32 => {
                    if kind.u32_rule() == crate::gens::U32Rule::LowThenHigh {
                        if half {
                            half = false
                        } else {
                            half = true;
                            consumed += 1
                        }
                    } else {
                        consumed += 1
                    }
                }
                Op::U64 => {
                    consumed += if wb == 4 { 2 } else { 1 };
                    half = false
                }
                Op::Fill(n) => {
                    consumed += (*n as u64 + wb - 1) / wb;
                    if *n > 0 {
                        half = false
                    }
                }
                _ => {}
            }
        }
        // the original, after all those snapshots, still drains like the twin
        for (j, e) in expected_drain.iter().enumerate() {
            let got = sut(super::c05::do_call(live.as_mut(), native), "live_drain")?;
            if got != *e {
                return Err(E::End(viol("C11/serialising_disturbs_original", format!("{}:{:?}", kind.name(), fmt), format!("{}: live generator drain word {} is {:?}, twin {:?}", kind.name(), j, got, e))));
            }
        }
        Ok(())
    }

    fn sweep(&self, spec: &Spec, st: &mut Stats) -> Result<(), E> {
        let kind = spec.kind.expect("kind");
        let fmt = fmt_of(spec.aux.first().copied().unwrap_or(0));
        let only: Option<(u64, u64)> = if spec.aux.len() >= 3 { Some((spec.aux[1], spec.aux[2])) } else { None };
        let halves: &[u64] = if kind == Kind::Isaac64 { &[0, 1] } else { &[0] };
        let native = if kind.word_bits() == 32 { Call::U32 } else { Call::U64 };
        // `g` walks through every index; at each one (and each half flag) a snapshot is taken
        let mut g = build(spec, false).map_err(E::End)?;
        // position 0 here is the freshly seeded generator whose index equals the buffer length (256)
        for step in 0..=256u64 {
            for h in halves {
                if let Some((s, hh)) = only {
                    if s != step || hh != *h {
                        continue;
                    }
                }
                let mut base = sut(guard(|| g.boxed_clone()), "clone")?;
                if *h == 1 {
                    sut(super::c05::do_call(base.as_mut(), Call::U32), "half")?;
                }
                st.evals += 1;
                st.count("fault:crash_restart");
                st.sig(&[kind.id(), fmt as u64, 1000 + step, *h]);
                let at = format!("after {} native calls from seeding (half pending {})", step, h);
                let narrowed = |v: Violation| -> E {
                    let mut n = spec.clone();
                    n.aux = vec![spec.aux.first().copied().unwrap_or(0), step, *h];
                    let mut v = v;
                    v.narrowed = Some(Box::new(n));
                    E::End(RunEnd::Violation(v))
                };
                let mut copy = match crash_restore(base.as_ref(), fmt, &at) {
                    Ok(c) => c,
                    Err(E::End(RunEnd::Violation(v))) => return Err(narrowed(v)),
                    Err(e) => return Err(e),
                };
                // probe sensitive to index and half flag, then a drain of more than two blocks
                for j in 0..800 {
                    let call = match j {
                        0 => Call::U32,
                        1 => Call::Fill(3),
                        _ => native,
                    };
                    let a = sut(super::c05::do_call(base.as_mut(), call), "orig")?;
                    let b = sut(super::c05::do_call(copy.as_mut(), call), "restored")?;
                    if a != b {
                        return Err(narrowed(Violation::new(
                            "C11/restored_diverges",
                            format!("{}:{:?}", kind.name(), fmt),
                            format!("{} restored from a {:?} snapshot taken {}: call {} returned {:?}, the original {:?}", kind.name(), fmt, at, j, b, a),
                        )));
                    }
                }
            }
            sut(super::c05::do_call(g.as_mut(), native), "advance")?;
        }
        if only.is_none() {
            st.count("probe:complete_index_half_sweeps");
        }
        Ok(())
    }
}
