//! C13 — test_timer returns Ok(r) only with a usable r >= 1, else a TimerError that holds.

use super::common::*;
use crate::clockgen::{gen_clock, ClockCfg, ALL_CF};
use crate::engine::viol;
use crate::gens::{build_jitter, guard, Kind, SutFail};
use crate::models::jitter::{bitlen, timer_facts, TimerFacts, PROBES, TT_READS, WARMUP};
use crate::prng::Prng;
use crate::seams::clock::ClockSpec;
use crate::spec::{Op, RunEnd, Scenario, Spec, Stats, Tier};
use rand_jitter::TimerError;
use std::sync::Arc;

pub struct C13;

/// Per-probe description from which the 1601 readings are laid out.
struct ProbePlan {
    /// 64-bit difference between the second and the first reading of each probe
    d: Vec<u64>,
    /// gap from the second reading of probe i to the first reading of probe i+1
    gap: Vec<u64>,
    start: u64,
    /// probes whose first / second reading is forced to literal 0
    zero_first: Vec<usize>,
    zero_second: Vec<usize>,
    /// (probe, value): the first reading of this probe is exactly `value` (the clock jumps there between
    /// two probes), the probe's own delta stays what it was
    force_first: Option<(usize, u64)>,
}

fn layout(p: &ProbePlan) -> Vec<u64> {
    let mut r = Vec::with_capacity(TT_READS);
    let mut t = p.start;
    r.push(t);
    for i in 0..PROBES {
        t = t.wrapping_add(p.gap[i]);
        if let Some((k, v)) = p.force_first {
            if k == i {
                t = v;
            }
        }
        let t1 = t;
        let t2 = t1.wrapping_add(p.d[i]);
        // the two loop-count readings in between: somewhere between t1 and t2
        let third = p.d[i] / 3;
        r.push(if p.zero_first.contains(&i) { 0 } else { t1 });
        r.push(t1.wrapping_add(third));
        r.push(t1.wrapping_add(third.wrapping_mul(2)));
        r.push(if p.zero_second.contains(&i) { 0 } else { t2 });
        t = t2;
    }
    r
}

/// Deltas for the 300 measured probes with sum of |d_i - d_{i-1}| (d_{-1} = 0) aimed at `s`,
/// oscillating so that no probe is stuck when `s` allows it.
fn deltas_for_sum(rng: &mut Prng, s: u64) -> Vec<u64> {
    let n = 300usize;
    let b: u64 = if s > 4 * 300 && rng.chance(1, 2) { rng.range(1, (s / 300).min(1 << 20)) } else { 1 };
    let rest = s.saturating_sub(b);
    let q = rest / 299;
    let extra = (rest % 299) as usize;
    // 299 steps of size q or q+1 (the q+1 steps first on "up" moves)
    let mut e = vec![q; 299];
    let mut placed = 0;
    let mut idx = 0;
    while placed < extra && idx < 299 {
        e[idx] += 1;
        placed += 1;
        idx += 2;
    }
    idx = 1;
    while placed < extra && idx < 299 {
        e[idx] += 1;
        placed += 1;
        idx += 2;
    }
    let mut d = Vec::with_capacity(n);
    let mut cur = b.max(1);
    d.push(cur);
    let mut up = true;
    for step in e {
        if !up && cur <= step {
            up = true;
        }
        cur = if up { cur + step } else { cur - step };
        d.push(cur);
        up = !up;
    }
    d
}

const CLASSES: [&str; 14] = [
    "healthy_mean", "sum_boundary", "zero_reading", "zero_delta", "backwards", "mod100", "stuck",
    "mixture", "hostile", "pow2_mean", "table_mean", "tiny", "staircase", "pool_zero",
];

/// `forced`: (first-delta D, shape) for the used-generator scenarios:
///  shape 0: measured probes 0..=270 all have delta D (270 truly stuck: a verdict that must be Ok unless the
///           stuck history of an earlier call leaks in), shape 1: deltas D, 2D, then a constant stretch so
///           that exactly 271 probes are truly stuck (must be Err(TooManyStuck) or another true error)
fn gen_plan(rng: &mut Prng, forced: Option<(u64, u64)>) -> (ClockSpec, u64) {
    let mut class = rng.below(CLASSES.len() as u64);
    if forced.is_some() {
        class = CLASSES.iter().position(|c| *c == "stuck").unwrap() as u64;
    }
    let mut plan = ProbePlan {
        d: Vec::new(),
        gap: (0..PROBES).map(|_| rng.range(20, 3000)).collect(),
        start: match rng.below(5) {
            0 => rng.range(1, 1 << 30),
            1 => 1_700_000_000_000_000_000,
            2 => {
                // the probes cross a power-of-two boundary of the reading (2^32, 2^63, wrap-around)
                let k = *rng.pick(&[32u32, 63, 64]);
                if k == 64 { 0u64.wrapping_sub(rng.range(1, 3_000_000)) } else { (1u64 << k).wrapping_sub(rng.range(1, 3_000_000)) }
            }
            _ => rng.u64() | 1,
        },
        zero_first: vec![],
        zero_second: vec![],
        force_first: None,
    };
    // warm-up deltas: healthy, non-zero
    let warm: Vec<u64> = (0..WARMUP).map(|_| rng.range(50, 5000)).collect();
    let healthy = |rng: &mut Prng, m: u64| -> Vec<u64> {
        let s = m * 300 + rng.below(300);
        deltas_for_sum(rng, s)
    };
    let mut measured: Vec<u64> = match CLASSES[class as usize] {
        "healthy_mean" | "pool_zero" => {
            let m = rng.range(if CLASSES[class as usize] == "pool_zero" { 2 } else { 0 }, 40);
            healthy(rng, m)
        }
        "table_mean" => {
            let m = rng.range(0, 17);
            healthy(rng, m)
        }
        "tiny" => {
            // very small total variation: sums around 0..700
            let s = rng.range(0, 700);
            deltas_for_sum(rng, s)
        }
        "pow2_mean" => {
            let k = rng.range(1, 31);
            let m = match rng.below(3) {
                0 => (1u64 << k) - 1,
                1 => 1u64 << k,
                _ => (1u64 << k) + 1,
            };
            let s = m * 300 + [0, 1, 299][rng.below(3) as usize];
            deltas_for_sum(rng, s)
        }
        "sum_boundary" => {
            // delta_sum exactly on 299/300/599/600 and on each k*300 +- 1
            let k = match rng.below(4) {
                0 => 1,
                1 => 2,
                2 => rng.range(3, 17),
                _ => rng.range(15, 70),
            };
            let s = (k * 300) as i64 + (rng.below(3) as i64 - 1);
            deltas_for_sum(rng, s.max(0) as u64)
        }
        "zero_reading" | "zero_delta" | "backwards" | "mod100" | "stuck" | "mixture" => {
            let m = rng.range(2, 2000);
            healthy(rng, m)
        }
        "staircase" => {
            // deltas whose FIRST DIFFERENCES follow a short periodic pattern over a small alphabet
            // (0, +-s, +-2s): repeated deltas, even steps, arithmetic runs - every kind of coincidence
            // in the first / second differences the stuck test looks at, in every order
            let step = rng.range(1, 9) as i64 * if rng.chance(1, 2) { 1 } else { 100 };
            let alphabet = [0i64, step, -step, 2 * step, -2 * step];
            let period = rng.range(1, 5) as usize;
            let pat: Vec<i64> = (0..period).map(|_| *rng.pick(&alphabet)).collect();
            let mut d: i64 = rng.range(3_000, 200_000) as i64;
            (0..300)
                .map(|i| {
                    d += pat[i % period];
                    if d < 50 {
                        d += 40 * step.abs() + 1000;
                    }
                    d as u64
                })
                .collect()
        }
        _ => (0..300)
            .map(|_| {
                let k = rng.range(1, 33);
                rng.range(1, 1 << k)
            })
            .collect(),
    };
    match CLASSES[class as usize] {
        "zero_reading" => {
            let i = if rng.chance(1, 3) { rng.below(WARMUP as u64) } else { rng.range(WARMUP as u64, PROBES as u64 - 1) } as usize;
            if rng.chance(1, 2) {
                plan.zero_first.push(i)
            } else {
                plan.zero_second.push(i)
            }
        }
        "zero_delta" => {
            let i = rng.below(300) as usize;
            if rng.chance(2, 3) {
                measured[i] = if rng.chance(1, 2) { 0 } else { rng.range(1, 4) << 32 };
            }
            // (the warm-up probes are handled below, once the warm-up deltas exist)
        }
        "tiny" | "sum_boundary" | "table_mean" if rng.chance(1, 3) => {
            // a near-constant timer plus one to three tolerated steps back: the steps alone carry the
            // whole variation (guard and estimate must look at the same quantity)
            for _ in 0..rng.range(1, 3) {
                let i = rng.below(300) as usize;
                measured[i] = 0u64.wrapping_sub(rng.range(1, 3_000_000));
            }
        }
        "backwards" if rng.chance(1, 3) => {
            // most or all of the probes step back (a counter that counts down, a reversed subtraction in the
            // timer callback): exactly k distinct ones, k around 2^8, near 300, or anywhere
            let k = match rng.below(4) {
                0 => rng.range(250, 262),
                1 => rng.range(294, 300),
                2 => rng.range(120, 135),
                _ => rng.range(4, 300),
            } as usize;
            let mut idx: Vec<usize> = (0..300).collect();
            for j in 0..300 {
                let o = rng.range(j as u64, 299) as usize;
                idx.swap(j, o);
            }
            for i in &idx[..k] {
                measured[*i] = 0u64.wrapping_sub(rng.range(30, 100_000));
            }
        }
        "backwards" => {
            let k = rng.range(2, 5) as usize; // around the limit of 3
            for _ in 0..k {
                let i = rng.below(300) as usize;
                measured[i] = 0u64.wrapping_sub(rng.range(1, 100_000));
            }
        }
        "mod100" => {
            let k = rng.range(268, 273) as usize;
            let mut idx: Vec<usize> = (0..300).collect();
            for j in 0..300 {
                let o = rng.range(j as u64, 299) as usize;
                idx.swap(j, o);
            }
            // some of the multiples of 100 are backward steps (interaction of two counters)
            let backward_multiples = if rng.chance(1, 2) { rng.range(1, 3) as usize } else { 0 };
            for (n, i) in idx.iter().enumerate() {
                if n < backward_multiples {
                    measured[*i] = 0u64.wrapping_sub(100 * rng.range(1, 50));
                } else if n < k {
                    measured[*i] = 100 * rng.range(1, 50) + if rng.chance(1, 8) { 1u64 << 32 } else { 0 };
                } else if measured[*i] % 100 == 0 {
                    measured[*i] += 1 + rng.below(98);
                }
            }
        }
        "stuck" => {
            // long stretches with constant delta (first difference 0) or constant first difference
            let k = rng.range(265, 275) as usize;
            let base = rng.range(101, 5000) | 1;
            let mode = rng.below(3);
            for i in 0..k.min(300) {
                measured[i] = match mode {
                    0 => base,
                    1 => base + 7 * i as u64,
                    // probe durations swinging by exactly 2^31 and back: the second difference of the deltas is
                    // +-2^32, which IS zero in the 32-bit arithmetic of the stuck test
                    _ => base + if i % 2 == 1 { 1u64 << 31 } else { 0 },
                };
            }
            for i in k.min(300)..300 {
                measured[i] = base + 13 + rng.below(1000) * 2 + (i as u64 % 2) * 977;
            }
            if rng.chance(1, 5) {
                // EVERY measured probe is stuck or backward: a constant-rate counter whose first one to three
                // measured probes step back (a 32-bit tick counter that wraps right there looks like that)
                let c = base;
                for m in measured.iter_mut() {
                    *m = c;
                }
                let nb = rng.range(1, 3) as usize;
                for i in 0..nb {
                    measured[i] = if rng.chance(1, 2) { c.wrapping_sub(1 << 32) } else { 0u64.wrapping_sub(rng.range(1_000, 20_000)) };
                }
            } else if rng.chance(1, 2) {
                for _ in 0..rng.range(1, 3) {
                    let i = rng.below(k.min(300) as u64) as usize;
                    measured[i] = 0u64.wrapping_sub(measured[i]);
                }
            }
        }
        "mixture" => {
            for _ in 0..rng.range(1, 6) {
                let i = rng.below(300) as usize;
                match rng.below(6) {
                    5 => {
                        // consecutive probe deltas that differ by exactly 2^31 (or one off): the
                        // variation is i32::MIN in two's complement
                        let j = i.max(1);
                        measured[j] = measured[j - 1].wrapping_add(0x8000_0000u64.wrapping_add(rng.below(3)).wrapping_sub(1));
                    }
                    0 => measured[i] = 0u64.wrapping_sub(rng.range(1, 1000)),
                    1 => measured[i] = 100 * rng.range(1, 9),
                    2 => measured[i] = 0x8000_0000u64.wrapping_add(rng.below(5)).wrapping_sub(2),
                    3 => measured[i] = 0u64.wrapping_sub(0x8000_0000u64).wrapping_add(rng.below(5)),
                    _ => measured[i] = rng.range(1, 3) << 32 | rng.below(50),
                }
            }
        }
        _ => {}
    }
    if let Some((d, shape)) = forced {
        let tail = |rng: &mut Prng, i: usize| d + 13 + rng.below(1000) * 2 + (i as u64 % 2) * 977;
        if shape == 0 {
            for i in 0..300 {
                measured[i] = if i <= 270 { d } else { tail(rng, i) };
            }
        } else {
            // D, 2D (stuck with an empty history: second difference zero), then a constant stretch
            measured[0] = d;
            measured[1] = 2 * d;
            let c = d + 3;
            for i in 2..300 {
                // probes 3..=271 are stuck (constant delta): with probe 1 that is 270 + 1 = 271
                measured[i] = if i <= 271 { c } else { tail(rng, i) };
            }
        }
    }
    let mut warm = warm;
    if CLASSES[class as usize] == "zero_delta" && forced.is_none() && measured.iter().all(|d| (*d as u32) != 0) {
        // the zero 32-bit delta falls into one of the 100 warm-up probes
        let i = rng.below(WARMUP as u64) as usize;
        warm[i] = if rng.chance(1, 2) { 0 } else { rng.range(1, 4) << 32 };
    }
    plan.d = warm;
    plan.d.extend(measured);
    if forced.is_none() && rng.chance(1, 6) {
        // the clock steps back (or stands still) BETWEEN probes - unsynchronised per-core counters, two
        // clock domains - while every probe by itself is what the class made it: no failure condition
        // looks at the relation between different probes
        let k = rng.range(4, 80) as usize;
        for _ in 0..k {
            let lo = if rng.chance(1, 5) { 0 } else { WARMUP as u64 };
            let i = rng.range(lo, PROBES as u64 - 1) as usize;
            plan.gap[i] = if rng.chance(1, 6) { 0 } else { 0u64.wrapping_sub(rng.range(1, 200_000)) };
        }
    }
    let mut readings = layout(&plan);
    if CLASSES[class as usize] == "pool_zero" && forced.is_none() {
        // every probe folds the full 64 bits of its first reading into the pool (nothing else does): the
        // first reading of the LAST probe is solved so that the pool is exactly 0 (or all ones, or equal to
        // what it was before the test) when the test ends - a healthy timer all the same
        let mut pool = 0u64;
        for i in 0..PROBES - 1 {
            pool = crate::models::jitter::lfsr_fold(pool, readings[1 + 4 * i]);
        }
        let target = *rng.pick(&[0u64, 0, u64::MAX, 1]);
        if let Some(x) = crate::craft::solve_fold_to(pool, target) {
            if x != 0 && x.wrapping_add(plan.d[PROBES - 1]) != 0 {
                plan.force_first = Some((PROBES - 1, x));
                readings = layout(&plan);
            }
        }
    }
    if CLASSES[class as usize] == "hostile" {
        // a fully generic hostile script from the fault catalogue
        let faults = crate::clockgen::pick_faults(rng, &ALL_CF);
        let rate = rng.range(1, 40) as u32;
        let (c, _) = gen_clock(rng, &ClockCfg { n: TT_READS, faults, rate_per_1000: rate, max_stretch: 8 , long_stuck: false});
        readings = c.readings;
    }
    if forced.is_none() && rng.chance(1, 8) {
        // one reading of the script is a special VALUE (all ones, a sign boundary, ...): the script is
        // shifted as a whole, every delta and every literal zero stays what the class made it
        crate::clockgen::pin_special(rng, &mut readings, TT_READS);
    }
    (ClockSpec { readings, tail_key: rng.u64(), fork_skews: vec![], freeze: None, abort_at: None }, class)
}

fn holds(e: &TimerError, f: &TimerFacts) -> bool {
    match e {
        TimerError::NoTimer => f.zero_reading_at.is_some(),
        TimerError::CoarseTimer => f.zero_delta_at.is_some() || f.mod100 > 270,
        TimerError::NotMonotonic => f.backwards > 3,
        TimerError::TinyVariations => f.mean < 2,
        TimerError::TooManyStuck => f.stuck > 270,
        _ => false,
    }
}

fn any_holds(f: &TimerFacts) -> Vec<&'static str> {
    let mut v = Vec::new();
    if f.zero_reading_at.is_some() {
        v.push("zero reading");
    }
    if f.zero_delta_at.is_some() {
        v.push("zero 32-bit delta");
    }
    if f.backwards > 3 {
        v.push("more than 3 non-increasing probes");
    }
    if f.mean < 2 {
        v.push("mean delta variation < 2 (log2(mean)/2 credits zero bits)");
    }
    if f.mod100 > 270 {
        v.push("more than 90% of deltas multiples of 100");
    }
    if f.stuck > 270 {
        v.push("more than 90% stuck probes");
    }
    v
}

fn err_code(e: &TimerError) -> u64 {
    match e {
        TimerError::NoTimer => 1,
        TimerError::CoarseTimer => 2,
        TimerError::NotMonotonic => 3,
        TimerError::TinyVariations => 4,
        TimerError::TooManyStuck => 5,
        _ => 9,
    }
}

impl Scenario for C13 {
    fn id(&self) -> &'static str {
        "C13"
    }
    fn level(&self) -> &'static str {
        "exploration"
    }
    fn runs(&self, tier: Tier) -> u64 {
        match tier {
            Tier::Quick => 40_000,
            Tier::Thorough => 4_000_000,
        }
    }
    fn generate(&self, rng: &mut Prng, _tier: Tier) -> Spec {
        // one run in five: the generator is NOT fresh when test_timer is called (the verdict must be
        // a function of the 400 probes alone): it has produced outputs, or it retries test_timer
        let used = rng.below(10);
        if used >= 2 {
            let (clock, class) = gen_plan(rng, None);
            return Spec {
                prop: "C13".into(),
                variant: CLASSES[class as usize].into(),
                kind: Some(Kind::Jitter),
                clock: Some(clock),
                aux: vec![class, 0],
                logger: rng.chance(1, 6),
                ..Default::default()
            };
        }
        let mut spec = Spec { prop: "C13".into(), kind: Some(Kind::Jitter), ..Default::default() };
        if used == 0 {
            // outputs first: the number of readings they consume comes from the reference model
            spec.variant = "after_outputs".into();
            let rounds = rng.range(1, 4) as u8;
            spec.rounds = Some(rounds);
            spec.ops = (0..rng.range(1, 3)).map(|_| if rng.chance(1, 2) { Op::U64 } else { Op::U32 }).collect();
            let prefix = gen_plain_clock(rng, 120);
            let mut m = crate::models::jitter::JitterModel::new(crate::seams::clock::ModelClock::new(std::sync::Arc::new(prefix.clone())));
            m.set_rounds(rounds);
            let mut ok = true;
            for op in &spec.ops {
                let r = match op {
                    Op::U64 => m.next_u64(100).map(|_| ()),
                    _ => m.next_u32(100).map(|_| ()),
                };
                if r.is_err() {
                    ok = false;
                }
            }
            let base = m.reads() as usize;
            if ok && base <= prefix.readings.len() {
                let (clock, class) = gen_plan(rng, None);
                let mut readings = prefix.readings[..base].to_vec();
                readings.extend(clock.readings);
                spec.clock = Some(ClockSpec { readings, tail_key: clock.tail_key, fork_skews: vec![], freeze: None, abort_at: None });
                spec.aux = vec![class, base as u64];
                return spec;
            }
            // (stuck prefix script: fall through to a retry scenario)
        }
        // retry: test_timer twice on the same object; the first script is healthy and ends with a
        // probe of delta D, the second starts its measured window with D (shape 0) or D, 2D (shape 1)
        spec.variant = "retry".into();
        spec.rounds = None;
        spec.ops = vec![Op::TestTimer];
        let d = rng.range(150, 5000) | 1;
        let (mut first, _) = gen_plan(rng, None);
        {
            // healthy first script with a known last probe delta
            let mut plan = ProbePlan {
                d: (0..PROBES).map(|i| 300 + (i as u64 * 37) % 211 + rng.below(400)).collect(),
                gap: (0..PROBES).map(|_| rng.range(20, 3000)).collect(),
                start: rng.range(1, 1 << 40),
                zero_first: vec![],
                zero_second: vec![],
                force_first: None,
            };
            plan.d[PROBES - 1] = d;
            first.readings = layout(&plan);
        }
        let shape = rng.below(2);
        let (second, class) = gen_plan(rng, Some((d, shape)));
        let mut readings = first.readings;
        let base = readings.len();
        readings.extend(second.readings);
        spec.clock = Some(ClockSpec { readings, tail_key: second.tail_key, fork_skews: vec![], freeze: None, abort_at: None });
        spec.aux = vec![class, base as u64, shape];
        spec
    }
    /// shrinking a 1601-reading script by truncation would change its meaning; candidates
    /// only simplify the tail beyond the layout
    fn shrink(&self, _spec: &Spec) -> Vec<Spec> {
        vec![]
    }

    fn execute(&self, spec: &Spec, st: &mut Stats) -> RunEnd {
        let clock = Arc::new(spec.clock.clone().expect("clock"));
        st.evals += 1;
        let mut g = build_jitter(clock.clone());
        let base = spec.aux.get(1).copied().unwrap_or(0);
        if let Some(r) = spec.rounds {
            if r > 0 {
                g.jitter().unwrap().set_rounds(r);
            }
        }
        // the generator may already have been used: outputs, or an earlier test_timer
        for op in &spec.ops {
            g.jitter_ref().unwrap().set_cap(base + 8);
            let gm = g.as_mut();
            let r = match op {
                Op::U64 => guard(|| {
                    gm.next_u64();
                }),
                Op::U32 => guard(|| {
                    gm.next_u32();
                }),
                Op::TestTimer => guard(|| {
                    let _ = gm.jitter().unwrap().test_timer();
                }),
                _ => Ok(()),
            };
            match r {
                Ok(()) => {}
                Err(SutFail::Panic(m)) => return sut_panic("prefix", &m),
                Err(SutFail::ClockAbort) => return RunEnd::Discard("prefix_misaligned".into()),
            }
        }
        if !spec.ops.is_empty() {
            st.count("probe:test_timer_on_used_generator");
        }
        if g.jitter_ref().unwrap().reads() != base {
            // the earlier calls did not consume what the reference procedure consumes (a C12 matter):
            // the probes of this test_timer call cannot be located in the script
            return RunEnd::Discard("prefix_misaligned".into());
        }
        g.jitter_ref().unwrap().set_cap(base + TT_READS as u64 + 64);
        let r = {
            let gm = g.as_mut();
            guard(|| gm.jitter().unwrap().test_timer())
        };
        let res = match r {
            Ok(x) => x,
            Err(SutFail::Panic(m)) => {
                // test_timer must return Ok or Err for every timer: a panic is neither (C14 reports
                // the panic as such; here it is the missing verdict that counts)
                let site = m.rsplit(" @ ").next().unwrap_or("?");
                let site = match site.rfind("/rand_") {
                    Some(i) => site[i + 1..].to_string(),
                    None => site.to_string(),
                };
                return viol("C13/no_verdict_panic", format!("test_timer@{}", site), format!("test_timer panicked instead of returning Ok or Err: {}", m));
            }
            Err(SutFail::ClockAbort) => {
                return viol("C13/reads_beyond_400_probes", "test_timer", "test_timer read the timer more than 1 + 4*400 times".to_string())
            }
        };
        let consumed = g.jitter_ref().unwrap().reads() - base;
        let rd = |i: u64| clock.reading(base + i);
        let full = timer_facts(&rd, PROBES);
        st.log.u64(consumed);
        let class = spec.aux.first().copied().unwrap_or(99);
        match &res {
            Ok(rv) => {
                let rv = *rv;
                st.log.u64(1000 + rv as u64);
                st.sig(&[class, 0, bitlen(full.mean) as u64, rv as u64]);
                st.count("probe:result_ok");
                if full.mean < 16 {
                    st.count("probe:ok_table_mean");
                }
                let bad = any_holds(&full);
                if !bad.is_empty() {
                    return viol(
                        "C13/ok_despite_failure_condition",
                        format!("test_timer:{}", bad[0]),
                        format!("test_timer returned Ok({}) although: {} (facts {:?})", rv, bad.join("; "), full),
                    );
                }
                if consumed != TT_READS as u64 {
                    return viol("C13/ok_without_400_probes", "test_timer", format!("Ok({}) after {} timer readings instead of {}", rv, consumed, TT_READS));
                }
                if rv < 1 || rv > 128 {
                    return viol("C13/rounds_out_of_range", format!("test_timer:mean={}", full.mean.min(17)), format!("Ok({}) for mean delta variation {} (delta_sum {})", rv, full.mean, full.delta_sum));
                }
                if (rv as u64) * (bitlen(full.mean) as u64) < 128 {
                    return viol(
                        "C13/rounds_insufficient",
                        format!("test_timer:bitlen={}", bitlen(full.mean)),
                        format!("Ok({}) for mean {} (bitlen {}): {} rounds * {} < 128", rv, full.mean, bitlen(full.mean), rv, bitlen(full.mean)),
                    );
                }
                // the documented idiom set_rounds(test_timer()?) must not trip the assertion
                let gm = g.as_mut();
                if let Err(SutFail::Panic(m)) = guard(|| gm.jitter().unwrap().set_rounds(rv)) {
                    return viol("C13/set_rounds_panics", "test_timer:set_rounds", format!("set_rounds({}) panicked: {}", rv, m));
                }
            }
            Err(e) => {
                st.log.u64(2000 + err_code(e));
                st.sig(&[class, err_code(e), bitlen(full.mean) as u64, 0]);
                st.count(&format!("probe:err_{:?}", e));
                let probes_consumed = ((consumed.max(1) - 1) / 4) as usize;
                let prefix = timer_facts(&rd, probes_consumed.min(PROBES));
                if !holds(e, &prefix) {
                    return viol(
                        "C13/error_condition_does_not_hold",
                        format!("test_timer:{:?}", e),
                        format!("Err({:?}) after {} readings, but that condition does not hold on the consumed probes: {:?}", e, consumed, prefix),
                    );
                }
            }
        }
        st.sim_time_ns += clock.reading(base + consumed.max(1) - 1).wrapping_sub(clock.reading(0)).min(1 << 62) as u128;
        RunEnd::Ok
    }

    fn rule(&self) -> String {
        "Each run: one clock script for the 1 + 4*400 readings of test_timer, generated per target class: healthy with a drawn mean delta variation (0..40; table means 0..17; 2^k-1, 2^k, 2^k+1 up to 2^31), delta_sum placed exactly on k*300-1 / k*300 / k*300+1 (k = 1, 2, 3..70), total variation 0..700, a literal zero reading at a drawn probe (first/second reading, warm-up or measured), a zero 32-bit-truncated delta (equal readings or a multiple of 2^32), 2..5 non-increasing probes (one time in three 4..300 distinct ones, concentrated around 128, 256 and 300), 268..273 deltas that are multiples of 100, 265..275 stuck probes, mixtures (deltas near +-2^31, 2^32 multiples), staircases (first differences of the deltas follow a short periodic pattern over {0, +-s, +-2s}), and generic hostile scripts from the clock-fault catalogue. In one run out of five the generator is not fresh when test_timer is called: it has produced 1..3 outputs first (the readings they consume are located with the reference model), or test_timer is called a second time on the same object, the second script starting its measured window with the last probe delta D of the first (270 truly stuck probes: must be Ok) or with D, 2D and a constant stretch (271 truly stuck probes: must be Err) - the verdict must be a function of the 400 probes alone. The oracle recomputes the six documented failure predicates from the readings actually consumed. Ok(r) is accepted iff no predicate holds on the 400 probes, all 1601 readings were consumed, 1 <= r <= 128, r*bitlen(mean) >= 128 and set_rounds(r) does not panic; Err(e) iff the predicate named by e holds on the consumed prefix. No precedence among simultaneously true conditions and no exact r is demanded. distinct_nontrivial = distinct (target class, result variant, bitlen(mean), r) signatures. Modifiers: one reading pinned to a special value (all ones, sign boundaries, powers of two) by shifting the whole script; clock steps back (or stands still) BETWEEN probes; near-constant timers plus one to three tolerated steps back.".into()
    }
    fn assumptions(&self) -> Vec<String> {
        vec![
            "reading layout of test_timer: one priming reading, then per probe: first reading, two loop-count readings, second reading; 100 warm-up probes count only for the zero-reading and zero-delta checks".into(),
            "mean = (sum over the 300 measured probes of |delta_i - delta_(i-1)|, delta_(-1) = 0) / 300 with wrapping 32-bit differences, as the crate documents".into(),
            "'a mean so small that log2(mean)/2 credits zero bits' is mean < 2".into(),
        ]
    }
    fn components(&self) -> serde_json::Value {
        components_std()
    }
    fn required_probes(&self, _tier: Tier) -> Vec<&'static str> {
        vec![
            "probe:result_ok",
            "probe:ok_table_mean",
            "probe:err_NoTimer",
            "probe:err_CoarseTimer",
            "probe:err_NotMonotonic",
            "probe:err_TinyVariations",
            "probe:err_TooManyStuck",
            "probe:test_timer_on_used_generator",
        ]
    }
}
