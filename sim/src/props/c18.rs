//! C18 — output streams are identical across build profiles and feature sets.
//! The scenario itself only *records*: a fixed, seed-derived corpus of histories is executed and
//! one digest per run is produced (outputs, or the marker `panic@op i`). The parent runs the same
//! corpus through the same harness built in several configurations and compares the digests —
//! this is the simulator's own replay-determinism check, pointed at the build configuration.

use super::c12::{gen_jitter_spec, jitter_fault_set};
use super::common::*;
use crate::gens::{guard, DynGen, Kind, SutFail};
use crate::models::stream::Call;
use crate::prng::{Digest, Prng};
use crate::spec::{Op, RunEnd, Scenario, Spec, Stats, Tier};

pub struct C18;

pub fn gen_corpus_spec(rng: &mut Prng, tier: Tier) -> Spec {
    if rng.chance(1, if tier == Tier::Quick { 1_200 } else { 8_000 }) {
        // about 33 HC-128 marathons of 2^27 words per quick check, in every configuration
        return marathon_spec(rng, "C18", "corpus_marathon", 128);
    }
    if rng.chance(1, 100) {
        return seeding_sweep_spec(rng, "C18", "corpus_seeding_sweep");
    }
    if rng.chance(1, 6) {
        let mut s = gen_jitter_spec(rng, "C18", &jitter_fault_set(), false);
        if s.variant == "jitter_history" && rng.chance(1, 8) {
            // the timer test first, on one of the scripts aimed at its failure classes and boundaries (deltas
            // near +-2^31 and 2^32 among them), then the history on the continuation of that clock
            let t = super::c13::C13.generate(rng, tier);
            if let Some(c) = t.clock {
                s.clock = Some(c);
                s.aux = Vec::new();
                s.ops.insert(0, Op::TestTimer);
            }
        }
        s.variant = "corpus_jitter".into();
        return s;
    }
    let mut spec = Spec { prop: "C18".into(), variant: "corpus_det".into(), ..Default::default() };
    let mut kind = pick_det_kind(rng);
    let long_zero = rng.chance(1, 150);
    if long_zero {
        kind = Kind::XorShift;
    }
    spec.kind = Some(kind);
    spec.seed = Some(gen_seed(rng, kind));
    if long_zero {
        let src = gen_long_zero_source(rng);
        spec.seed = Some(if rng.chance(1, 2) { crate::gens::SeedSpec::FromRng(src) } else { crate::gens::SeedSpec::TryFromRng(src) });
        spec.variant = "corpus_det_long_zero_source".into();
    }
    spec.pre = rng.below(pre_range(kind) + 1) as u32;
    let mut ops = gen_output_ops(rng, kind, 48);
    if kind.has_jump() {
        for _ in 0..rng.below(3) {
            let at = rng.below(ops.len() as u64 + 1) as usize;
            ops.insert(at, if rng.chance(1, 2) { Op::Jump } else { Op::LongJump });
        }
    }
    for _ in 0..rng.below(2) {
        let at = rng.below(ops.len() as u64 + 1) as usize;
        ops.insert(at, Op::Fork);
    }
    if maybe_long_haul(rng, &mut ops, 100) {
        spec.variant = "corpus_det_long_haul".into();
    }
    spec.ops = ops;
    spec
}

/// Extra corpus entries that need the simulator's default feature set to be GENERATED (crafted
/// linear-engine states are read out through serde): the parent generates them once and every
/// configuration executes the same explicit specs (`rngsim corpus-file`).
pub fn gen_extra_corpus(seed: u64, n: usize) -> Vec<Spec> {
    let mut rng = Prng::new(crate::prng::h2(seed, 0xC18C));
    let mut out = Vec::new();
    let mut attempts = 0;
    while out.len() < n && attempts < 4 * n {
        attempts += 1;
        let mut spec = Spec { prop: "C18".into(), variant: "corpus_det_zero_word_state".into(), ..Default::default() };
        spec.ops = gen_output_ops(&mut rng, Kind::Xoshiro256PlusPlus, 12);
        if make_zero_word_run(&mut rng, &mut spec, true) {
            // a second jump later in the history now and then
            if spec.kind.map(|k| k.has_jump()).unwrap_or(false) && rng.chance(1, 3) {
                let at = rng.below(spec.ops.len() as u64 + 1) as usize;
                spec.ops.insert(at, if rng.chance(1, 2) { Op::Jump } else { Op::LongJump });
            }
            out.push(spec);
        }
    }
    out
}

/// Execute a corpus spec; returns per-op digests (the last entry is the drain).
pub fn exec_corpus(spec: &Spec, st: &mut Stats) -> Vec<u64> {
    let mut per_op = Vec::new();
    let kind = spec.kind.expect("kind");
    if spec.variant == "corpus_marathon" {
        if run_marathon(spec, st).is_err() {
            st.log.str("panic@marathon");
            st.count("probe:panic_marker");
        }
        per_op.push(st.log.finish());
        return per_op;
    }
    if spec.variant == "corpus_seeding_sweep" {
        if let Err((i, _)) = run_seeding_sweep(spec, st) {
            st.log.str(&format!("panic@seeding {}", i));
            st.count("probe:panic_marker");
        }
        per_op.push(st.log.finish());
        return per_op;
    }
    #[cfg(feature = "jstd")]
    if spec.pre_new {
        // the real-clock constructor first (on the calendar date the run asks for): what it returns is the
        // machine's business and is not logged, but whether it PANICS must not depend on the configuration
        if let Err(SutFail::Panic(_)) = guard(|| rand_jitter::JitterRng::new().is_ok()) {
            st.log.str("panic@JitterRng::new");
            st.count("probe:panic_marker");
        }
        st.count("probe:real_clock_new_before_run");
    }
    let mut g: Box<dyn DynGen> = match build(spec, false) {
        Ok(g) => g,
        Err(RunEnd::Discard(s)) => {
            // a construction panic is recorded as a marker, like any other panic
            let marker = if s.starts_with("SUT_PANIC") { "panic@construct" } else { "discard@construct" };
            st.log.str(marker);
            per_op.push(st.log.finish());
            return per_op;
        }
        Err(_) => return per_op,
    };
    let native = if kind.word_bits() == 32 { Call::U32 } else { Call::U64 };
    let mut step = |g: &mut Box<dyn DynGen>, op: &Op, st: &mut Stats, i: usize| -> bool {
        if kind == Kind::Jitter {
            let r = g.jitter_ref().unwrap().reads();
            g.jitter_ref().unwrap().set_cap(r + 60_000);
        }
        let mut d = Digest::default();
        let r: Result<(), SutFail> = match op {
            Op::U32 => guard(|| g.next_u32()).map(|v| d.u64(v as u64)),
            Op::U64 => guard(|| g.next_u64()).map(|v| d.u64(v)),
            Op::Fill(n) => {
                // destination at a varying offset from an aligned allocation (see c05::do_call)
                let n = *n as usize;
                let off = (n ^ (n >> 3) ^ (n >> 7)) & 15;
                let mut buf = vec![0u8; n + 16];
                guard(|| g.fill_bytes(&mut buf[off..off + n])).map(|_| d.bytes(&buf[off..off + n]))
            }
            Op::Jump => guard(|| g.jump()).map(|_| ()),
            Op::LongJump => guard(|| g.long_jump()).map(|_| ()),
            Op::Fork => match guard(|| g.boxed_clone()) {
                Ok(c) => {
                    *g = c;
                    Ok(())
                }
                Err(e) => Err(e),
            },
            Op::TimerStats(v) => guard(|| g.jitter().map(|j| j.timer_stats(*v)).unwrap_or(0)).map(|x| d.u64(x as u64)),
            Op::TestTimer => {
                if kind == Kind::Jitter {
                    let r = g.jitter_ref().unwrap().reads();
                    g.jitter_ref().unwrap().set_cap(r + 1700);
                }
                guard(|| {
                    g.jitter().map(|j| match j.test_timer() {
                        Ok(r) => r as u64,
                        Err(_) => 1000,
                    })
                })
                .map(|x| d.u64(x.unwrap_or(0)))
            }
            Op::SetRounds(r) => {
                if *r > 0 {
                    guard(|| {
                        if let Some(j) = g.jitter() {
                            j.set_rounds(*r)
                        }
                    })
                } else {
                    // the documented panic, in every configuration alike
                    let r = guard(|| {
                        if let Some(j) = g.jitter() {
                            j.set_rounds(0)
                        }
                    });
                    d.u64(matches!(r, Err(SutFail::Panic(_))) as u64);
                    Ok(())
                }
            }
            Op::CloneThen(inner) | Op::CloneFromThen(inner) => match guard(|| g.boxed_clone()) {
                Ok(mut c) => match &**inner {
                    Op::U32 => guard(|| c.next_u32()).map(|v| d.u64(v as u64)),
                    Op::U64 => guard(|| c.next_u64()).map(|v| d.u64(v)),
                    Op::Fill(n) => {
                        let mut b = vec![0u8; *n as usize];
                        guard(|| c.fill_bytes(&mut b)).map(|_| d.bytes(&b))
                    }
                    _ => Ok(()),
                },
                Err(e) => Err(e),
            },
            _ => Ok(()),
        };
        match r {
            Ok(()) => {
                st.log.u64(d.finish());
                true
            }
            Err(SutFail::Panic(_)) => {
                // the message is not hashed (it contains paths); the position is
                st.log.str(&format!("panic@op {}", i));
                st.count("probe:panic_marker");
                false
            }
            Err(SutFail::ClockAbort) => {
                st.log.str(&format!("stuck@op {}", i));
                false
            }
        }
    };
    for i in 0..spec.pre as usize {
        let op = if native == Call::U32 { Op::U32 } else { Op::U64 };
        if !step(&mut g, &op, st, i) {
            per_op.push(st.log.finish());
            return per_op;
        }
    }
    for (i, op) in spec.ops.iter().enumerate() {
        st.sig(&[kind.id(), op.code(), spec.seed.as_ref().map(|s| s.route()).unwrap_or(9)]);
        if matches!(op, Op::Fill(n) if *n >= 4 * 65_536) {
            st.count("probe:long_haul");
        }
        let ok = step(&mut g, op, st, i);
        per_op.push(st.log.finish());
        if !ok {
            return per_op;
        }
    }
    // drain
    let n = if kind == Kind::Jitter { 1 } else { kind.block_words() + 3 };
    for i in 0..n {
        let op = if native == Call::U32 { Op::U32 } else { Op::U64 };
        if !step(&mut g, &op, st, 10_000 + i) {
            break;
        }
    }
    per_op.push(st.log.finish());
    per_op
}

impl Scenario for C18 {
    fn id(&self) -> &'static str {
        "C18"
    }
    fn level(&self) -> &'static str {
        "exploration"
    }
    fn runs(&self, tier: Tier) -> u64 {
        match tier {
            Tier::Quick => 40_000,
            Tier::Thorough => 1_000_000,
        }
    }
    fn generate(&self, rng: &mut Prng, _tier: Tier) -> Spec {
        gen_corpus_spec(rng, _tier)
    }
    fn execute(&self, spec: &Spec, st: &mut Stats) -> RunEnd {
        st.evals += 1;
        let _ = exec_corpus(spec, st);
        RunEnd::Ok
    }
    fn rule(&self) -> String {
        "A fixed corpus derived from VERIF_SEED: C05-style histories for the 19 deterministic types (all seeding routes, every buffer index, jump/long_jump, clone) and C12-style scripted-clock JitterRng histories (full clock-fault catalogue), every operation under catch_unwind. Each run yields one digest of all its outputs (or the marker `panic@op i`). The same harness is built from the current working tree in {opt-level 0, 3} x {overflow-checks + debug-assertions on, off} x {serde feature on, off} (quick: 4 configurations covering every pair of settings; thorough: all 8) and the per-run digest lists are compared; any difference is a violation. evaluations = runs x configurations; distinct_nontrivial = distinct (type, op kind, seeding route) signatures in the corpus. One corpus entry in 100 is a seeding sweep (1500..4000 constructions from consecutive/sparse/hashed seeds, one output each). Configurations: opt-level 0/3 x (overflow checks + debug assertions) x serde/std/log features, one with -C target-cpu=native; thorough adds opt-level 1 with overflow checks only and opt-level s with debug assertions only (thin LTO).".into()
    }
    fn assumptions(&self) -> Vec<String> {
        vec![
            "the harness's own PRNG / hash use fixed-width wrapping arithmetic only, so corpus generation is identical in every configuration; a panic inside the harness itself is reported as a harness error (exit 2), never as a violation".into(),
            "x86-64 Linux only; other targets / endianness are not covered".into(),
        ]
    }
    fn components(&self) -> serde_json::Value {
        components_std()
    }
}
