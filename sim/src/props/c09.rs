//! C09 — all seeding routes agree; a failing source yields its error, never a generator.
//! Fault enumeration: for a sampled source stream EVERY position at which the fallible source
//! can start failing is tried (clean error at call c, and torn fill after j bytes for every j).

use super::c08::same_stream;
use super::common::*;
use crate::engine::viol;
use crate::gens::{construct, construct_core, guard, Constructed, CoreConstructed, CoreKind, DynGen, Kind, SeedSpec, SnapFmt, SourceReport, SutFail, DET_KINDS};
use crate::models::seedexp::{isaac64_randinit, isaac_randinit, pcg32_expand};
use crate::prng::Prng;
use crate::seams::source::{SourceFault, SourceSpec};
use crate::spec::{RunEnd, Scenario, Spec, Stats, Tier, Violation};
use rand_core::{RngCore, SeedableRng};

pub struct C09;

enum E {
    End(RunEnd),
}
fn sut<T>(r: Result<T, SutFail>, what: &str) -> Result<T, E> {
    match r {
        Ok(x) => Ok(x),
        Err(SutFail::Panic(m)) => Err(E::End(sut_panic(what, &m))),
        Err(SutFail::ClockAbort) => Err(E::End(RunEnd::Discard("clock_abort".into()))),
    }
}

fn v(class: &str, kind: Kind, what: &str, detail: String) -> Violation {
    Violation::new(class, format!("{}:{}", kind.name(), what), detail)
}

/// identical generators? by == where provided and by more than one block of outputs
fn same(a: &dyn DynGen, b: &dyn DynGen) -> Result<Result<(), String>, SutFail> {
    if let Some(false) = guard(|| a.eq_dyn(b))? {
        return Ok(Err("compare unequal with ==".into()));
    }
    let mut x = a.boxed_clone();
    let mut y = b.boxed_clone();
    if let Err(m) = same_stream(x.as_mut(), y.as_mut(), 5)? {
        return Ok(Err(m));
    }
    let n = a.kind().block_words() + 8;
    guard(|| {
        for i in 0..n {
            let (p, q) = (x.next_u64(), y.next_u64());
            if p != q {
                return Err(format!("output word {} after the probe differs: {:#x} vs {:#x}", i, p, q));
            }
        }
        Ok(())
    })
}

fn build_ok(kind: Kind, seed: &SeedSpec) -> Result<(Box<dyn DynGen>, Option<SourceReport>), E> {
    match sut(construct(kind, seed), "construct")? {
        Constructed::Ok(g, r) => Ok((g, r)),
        Constructed::Err(t, _) => Err(E::End(RunEnd::Violation(v(
            "C09/unexpected_error",
            kind,
            "try_from_rng",
            format!("{}: try_from_rng returned Err({:#x}) although the source did not fail", kind.name(), t),
        )))),
    }
}

/// number of fill calls a constructor needs on this stream, and bytes per call
fn calls_needed(kind: Kind, src: &SourceSpec) -> (u32, usize) {
    let n = kind.from_rng_len();
    if kind == Kind::XorShift {
        let mut k = 0;
        while k < 16 && src.bytes(k * n, n).iter().all(|b| *b == 0) {
            k += 1;
        }
        (k as u32 + 1, n)
    } else {
        (1, n)
    }
}

fn le_words32(b: &[u8]) -> [u32; 256] {
    let mut w = [0u32; 256];
    for (i, c) in b.chunks(4).enumerate().take(256) {
        w[i] = u32::from_le_bytes([c[0], c[1], c[2], c[3]]);
    }
    w
}
fn le_words64(b: &[u8]) -> [u64; 256] {
    let mut w = [0u64; 256];
    for (i, c) in b.chunks(8).enumerate().take(256) {
        w[i] = u64::from_le_bytes([c[0], c[1], c[2], c[3], c[4], c[5], c[6], c[7]]);
    }
    w
}

impl C09 {
    /// (1) no fault: from_rng == try_from_rng == from_seed(bytes delivered); source accounting
    fn routes(&self, kind: Kind, src: &SourceSpec, st: &mut Stats) -> Result<(), E> {
        let mut clean = src.clone();
        clean.fault = None;
        let (calls, n) = calls_needed(kind, &clean);
        let (a, ra) = build_ok(kind, &SeedSpec::FromRng(clean.clone()))?;
        let (b, rb) = build_ok(kind, &SeedSpec::TryFromRng(clean.clone()))?;
        st.evals += 2;
        st.sig(&[kind.id(), 2, 0, 0, 0]);
        st.sig(&[kind.id(), 3, 0, 0, 0]);
        for (name, rep) in [("from_rng", &ra), ("try_from_rng", &rb)] {
            let rep = rep.as_ref().unwrap();
            st.log.u64(rep.pos as u64);
            let expect = calls as usize * n;
            if rep.pos != expect {
                return Err(E::End(RunEnd::Violation(v("C09/source_consumption", kind, name, format!("{}::{} left the source advanced by {} bytes, expected exactly {} ({} block(s) of {})", kind.name(), name, rep.pos, expect, calls, n)))));
            }
            if rep.log.iter().any(|(k, _)| *k != 0) {
                return Err(E::End(RunEnd::Violation(v("C09/source_consumption", kind, name, format!("{}::{} did not use fill_bytes on the source: {:?}", kind.name(), name, rep.log)))));
            }
        }
        if let Err(m) = sut(same(a.as_ref(), b.as_ref()), "compare")? {
            return Err(E::End(RunEnd::Violation(v("C09/from_rng_vs_try_from_rng", kind, "try_from_rng", format!("{}: from_rng and try_from_rng over the same non-failing source differ: {}", kind.name(), m)))));
        }
        let delivered = clean.bytes((calls as usize - 1) * n, n);
        match kind {
            Kind::Isaac | Kind::Isaac64 => {
                // the crate's two custom constructors, core to core, and the documented construction
                let ck = if kind == Kind::Isaac { CoreKind::IsaacCore } else { CoreKind::Isaac64Core };
                let ca = match sut(construct_core(ck, &SeedSpec::FromRng(clean.clone())), "construct")? {
                    CoreConstructed::Ok(c, _) => c,
                    _ => unreachable!(),
                };
                let cb = match sut(construct_core(ck, &SeedSpec::TryFromRng(clean.clone())), "construct")? {
                    CoreConstructed::Ok(c, _) => c,
                    CoreConstructed::Err(..) => return Err(E::End(RunEnd::Violation(v("C09/unexpected_error", kind, "try_from_rng", "core try_from_rng failed on a non-failing source".into())))),
                };
                if !sut(guard(|| ca.eq_dyn(cb.as_ref())), "eq")? {
                    return Err(E::End(RunEnd::Violation(v("C09/from_rng_vs_try_from_rng", kind, "try_from_rng", format!("{}: core built by from_rng != core built by try_from_rng", ck.name())))));
                }
                let model = if kind == Kind::Isaac { isaac_randinit(&le_words32(&delivered), 2) } else { isaac64_randinit(&le_words64(&delivered), 2) };
                for (name, c) in [("from_rng", &ca), ("try_from_rng", &cb)] {
                    if let Some(img) = c.snapshot(SnapFmt::Bincode) {
                        st.count("probe:isaac_state_image_checked");
                        if img != model {
                            let at = img.iter().zip(model.iter()).position(|(x, y)| x != y).unwrap_or(0);
                            return Err(E::End(RunEnd::Violation(v("C09/isaac_state_construction", kind, name, format!("{}::{}: state image differs from randinit(LE words of the {} source bytes, two passes) at byte {}", ck.name(), name, delivered.len(), at)))));
                        }
                    }
                }
            }
            _ => {
                let (c, _) = build_ok(kind, &SeedSpec::Bytes(delivered.clone()))?;
                st.evals += 1;
                if let Err(m) = sut(same(a.as_ref(), c.as_ref()), "compare")? {
                    return Err(E::End(RunEnd::Violation(v("C09/from_rng_vs_from_seed", kind, "from_rng", format!("{}: from_rng differs from from_seed(the {} bytes the source delivered): {}", kind.name(), n, m)))));
                }
            }
        }
        Ok(())
    }

    /// (2) one fault position
    fn one_fault(&self, kind: Kind, src: &SourceSpec, st: &mut Stats, reference: Option<&dyn DynGen>) -> Result<(), E> {
        let f = src.fault.clone().expect("fault");
        let mut clean = src.clone();
        clean.fault = None;
        let (calls, n) = calls_needed(kind, &clean);
        st.evals += 1;
        let bucket = match f.torn as usize {
            0 => 0u64,
            x if x < 8 => 1,
            x if x + 8 >= n => 3,
            _ => 2,
        };
        st.sig(&[kind.id(), 3, 1 + (f.torn > 0) as u64, f.call.min(6) as u64, bucket]);
        let r = sut(construct(kind, &SeedSpec::TryFromRng(src.clone())), "construct")?;
        let what = if f.torn > 0 { "torn_fill" } else { "err_at_call" };
        if f.call <= calls {
            st.count(if f.torn > 0 { "fault:torn_at_call" } else { "fault:err_at_call" });
            match r {
                Constructed::Err(tok, rep) => {
                    st.log.u64(tok);
                    if tok != f.token || !rep.fired {
                        return Err(E::End(RunEnd::Violation(v("C09/wrong_error", kind, what, format!("{}::try_from_rng: source failed at call {} with error {:#x}, constructor returned error {:#x}", kind.name(), f.call, f.token, tok)))));
                    }
                    Ok(())
                }
                Constructed::Ok(..) => Err(E::End(RunEnd::Violation(v(
                    "C09/error_swallowed",
                    kind,
                    what,
                    format!("{}::try_from_rng returned a generator although the source failed at call {} of {} ({} of {} bytes written before the error)", kind.name(), f.call, calls, f.torn, n),
                )))),
            }
        } else {
            // the fault lies after the last byte the constructor needs: it must not be observed
            st.count("probe:fault_after_last_needed_call");
            match r {
                Constructed::Ok(g, _) => {
                    if let Some(reference) = reference {
                        if let Err(m) = sut(same(g.as_ref(), reference), "compare")? {
                            return Err(E::End(RunEnd::Violation(v("C09/from_rng_vs_try_from_rng", kind, what, format!("{}: try_from_rng with a fault scheduled after the last needed call differs from from_rng: {}", kind.name(), m)))));
                        }
                    }
                    Ok(())
                }
                Constructed::Err(tok, rep) => Err(E::End(RunEnd::Violation(v(
                    "C09/over_read",
                    kind,
                    what,
                    format!("{}::try_from_rng made call #{} on the source (needs {}), hit the fault scheduled there and returned Err({:#x})", kind.name(), rep.calls, calls, tok),
                )))),
            }
        }
    }

    /// (3) seed_from_u64(x) equals from_seed(documented expansion of x)
    fn u64_route(&self, kind: Kind, x: u64, st: &mut Stats) -> Result<(), E> {
        st.evals += 1;
        st.sig(&[kind.id(), 1, 0, (x == 0) as u64, 64 - x.leading_zeros() as u64 / 8]);
        let (a, _) = build_ok(kind, &SeedSpec::U64(x))?;
        let n = kind.seed_len();
        match kind {
            Kind::Isaac | Kind::Isaac64 => {
                let ck = if kind == Kind::Isaac { CoreKind::IsaacCore } else { CoreKind::Isaac64Core };
                let c = match sut(construct_core(ck, &SeedSpec::U64(x)), "construct")? {
                    CoreConstructed::Ok(c, _) => c,
                    _ => unreachable!(),
                };
                let model = if kind == Kind::Isaac {
                    let mut key = [0u32; 256];
                    key[0] = x as u32;
                    key[1] = (x >> 32) as u32;
                    isaac_randinit(&key, 1)
                } else {
                    let mut key = [0u64; 256];
                    key[0] = x;
                    isaac64_randinit(&key, 1)
                };
                if let Some(img) = c.snapshot(SnapFmt::Bincode) {
                    st.count("probe:isaac_state_image_checked");
                    if img != model {
                        let at = img.iter().zip(model.iter()).position(|(p, q)| p != q).unwrap_or(0);
                        return Err(E::End(RunEnd::Violation(v("C09/isaac_state_construction", kind, "seed_from_u64", format!("{}::seed_from_u64({:#x}): state image differs from randinit(x in the first key word(s), zeros elsewhere, ONE pass) at byte {}", ck.name(), x, at)))));
                    }
                }
                // the wrapper type must be the BlockRng over exactly that core
                let w = c.wrap();
                if let Err(m) = sut(same(a.as_ref(), w.as_ref()), "compare")? {
                    return Err(E::End(RunEnd::Violation(v("C09/seed_from_u64_expansion", kind, "seed_from_u64", format!("{}::seed_from_u64({:#x}) differs from BlockRng over {}::seed_from_u64: {}", kind.name(), x, ck.name(), m)))));
                }
            }
            Kind::SplitMix64 => {
                // not covered by the statement (its expansion list names the xoshiro/xoroshiro
                // generators, XorShiftRng, Hc128Rng and ISAAC): nothing is demanded here
                st.count("probe:splitmix_u64_route_not_demanded");
            }
            k if k.xoshiro_family() => {
                // the first seed-length bytes of the SplitMix64 stream started at x
                let bytes = sut(
                    guard(|| {
                        let mut sm = rand_xoshiro::SplitMix64::seed_from_u64(x);
                        let mut b = vec![0u8; n];
                        sm.fill_bytes(&mut b);
                        b
                    }),
                    "splitmix",
                )?;
                let (b, _) = build_ok(kind, &SeedSpec::Bytes(bytes.clone()))?;
                if let Err(m) = sut(same(a.as_ref(), b.as_ref()), "compare")? {
                    return Err(E::End(RunEnd::Violation(v("C09/seed_from_u64_expansion", kind, "seed_from_u64", format!("{}::seed_from_u64({:#x}) differs from from_seed(first {} bytes of SplitMix64 started at x = {:02x?}): {}", kind.name(), x, n, bytes, m)))));
                }
            }
            _ => {
                // XorShiftRng, Hc128Rng: rand_core's PCG32 expansion
                let bytes = pcg32_expand(x, n);
                let (b, _) = build_ok(kind, &SeedSpec::Bytes(bytes.clone()))?;
                st.count("probe:pcg32_expansion_checked");
                if let Err(m) = sut(same(a.as_ref(), b.as_ref()), "compare")? {
                    return Err(E::End(RunEnd::Violation(v("C09/seed_from_u64_expansion", kind, "seed_from_u64", format!("{}::seed_from_u64({:#x}) differs from from_seed(PCG32 expansion {:02x?}): {}", kind.name(), x, bytes, m)))));
                }
            }
        }
        Ok(())
    }

    fn stream(&self, spec: &Spec, st: &mut Stats) -> Result<(), E> {
        let kind = spec.kind.expect("kind");
        let src = match spec.seed.as_ref().expect("seed") {
            SeedSpec::FromRng(s) | SeedSpec::TryFromRng(s) => s.clone(),
            _ => return Err(E::End(RunEnd::Discard("bad_spec".into()))),
        };
        let narrow = |variant: &str, seed: SeedSpec, aux: Vec<u64>| {
            let mut n = spec.clone();
            n.variant = variant.into();
            n.seed = Some(seed);
            n.aux = aux;
            Box::new(n)
        };
        let attach = |e: E, n: Box<Spec>| -> E {
            match e {
                E::End(RunEnd::Violation(mut v)) => {
                    v.narrowed = Some(n);
                    E::End(RunEnd::Violation(v))
                }
                other => other,
            }
        };
        let mut clean = src.clone();
        clean.fault = None;
        self.routes(kind, &clean, st).map_err(|e| attach(e, narrow("routes", SeedSpec::FromRng(clean.clone()), vec![])))?;
        let (reference, _) = build_ok(kind, &SeedSpec::FromRng(clean.clone()))?;
        let (calls, n) = calls_needed(kind, &clean);
        let token = spec.aux.get(1).copied().unwrap_or(0xE0E0_0001);
        for c in 1..=calls + 1 {
            let torn_range: Vec<u32> = if c <= calls { (0..n as u32).collect() } else { vec![0, 1, (n / 2) as u32] };
            for j in torn_range {
                let mut fs = clean.clone();
                fs.fault = Some(SourceFault { call: c, torn: j, token: token ^ ((c as u64) << 32) ^ j as u64 });
                self.one_fault(kind, &fs, st, Some(reference.as_ref())).map_err(|e| attach(e, narrow("fault", SeedSpec::TryFromRng(fs.clone()), vec![])))?;
            }
        }
        let x = spec.aux.first().copied().unwrap_or(0);
        self.u64_route(kind, x, st).map_err(|e| attach(e, narrow("u64", SeedSpec::U64(x), vec![x])))?;
        Ok(())
    }
}

impl Scenario for C09 {
    fn id(&self) -> &'static str {
        "C09"
    }
    fn level(&self) -> &'static str {
        "fault_enumeration"
    }
    fn runs(&self, tier: Tier) -> u64 {
        match tier {
            Tier::Quick => 6_000,
            Tier::Thorough => 2_000_000,
        }
    }
    fn generate(&self, rng: &mut Prng, _tier: Tier) -> Spec {
        let kind = match rng.below(8) {
            0 => Kind::XorShift,
            1 => Kind::Isaac,
            2 => Kind::Isaac64,
            3 => Kind::Hc128,
            _ => *rng.pick(&DET_KINDS),
        };
        if rng.chance(1, 200) {
            // a source that is stuck at zero for 150 000 .. 400 000 blocks and then delivers a key: XorShiftRng
            // has to redraw that often, consume exactly that much and use the first non-zero block
            let src = gen_long_zero_source(rng);
            return Spec { prop: "C09".into(), variant: "long_zero".into(), kind: Some(Kind::XorShift), seed: Some(SeedSpec::FromRng(src)), ..Default::default() };
        }
        let n = kind.from_rng_len();
        let mut src = gen_source(rng, kind);
        if n <= 64 && rng.chance(1, 5) {
            // a block that is zero except for ONE byte (every position, the last one included): the most nearly
            // zero blocks there are - a zero test that misses a byte takes them for zero
            let mut b = vec![0u8; n];
            b[rng.below(n as u64) as usize] = if rng.chance(1, 2) { 1 << rng.below(8) } else { rng.range(1, 255) as u8 };
            src.prefix = b;
        }
        // leading all-zero blocks: XorShiftRng redraws (one more call per block)
        if rng.chance(1, 3) {
            let k = *rng.pick(&[1usize, 1, 2, 2, 3, 4, 7, 8, 9]);
            let mut p = vec![0u8; k * n.min(64)];
            p.extend_from_slice(&src.prefix);
            src.prefix = p;
        }
        Spec {
            prop: "C09".into(),
            variant: "stream".into(),
            kind: Some(kind),
            seed: Some(SeedSpec::TryFromRng(src)),
            aux: vec![rng.edge_u64(), rng.u64() | 1],
            ..Default::default()
        }
    }
    fn execute(&self, spec: &Spec, st: &mut Stats) -> RunEnd {
        let kind = spec.kind.expect("kind");
        let r = match spec.variant.as_str() {
            "stream" => self.stream(spec, st),
            "routes" => match spec.seed.as_ref() {
                Some(SeedSpec::FromRng(s)) | Some(SeedSpec::TryFromRng(s)) => self.routes(kind, s, st),
                _ => Ok(()),
            },
            "fault" => match spec.seed.as_ref() {
                Some(SeedSpec::TryFromRng(s)) if s.fault.is_some() => {
                    let mut clean = s.clone();
                    clean.fault = None;
                    match build_ok(kind, &SeedSpec::FromRng(clean)) {
                        Ok((reference, _)) => self.one_fault(kind, s, st, Some(reference.as_ref())),
                        Err(e) => Err(e),
                    }
                }
                _ => Ok(()),
            },
            "u64" => self.u64_route(kind, spec.aux.first().copied().unwrap_or(0), st),
            "long_zero" => match spec.seed.as_ref() {
                Some(SeedSpec::FromRng(src)) => {
                    st.evals += 1;
                    st.count("probe:long_zero_source");
                    let want = build_ok(kind, &SeedSpec::Bytes(src.prefix.clone()));
                    let a = build_ok(kind, &SeedSpec::FromRng(src.clone()));
                    let b = build_ok(kind, &SeedSpec::TryFromRng(src.clone()));
                    match (want, a, b) {
                        (Ok((w, _)), Ok((a, ra)), Ok((b, rb))) => {
                            let need = src.zero_run + 16;
                            let pos_ok = ra.as_ref().map(|r| r.pos == need).unwrap_or(false) && rb.as_ref().map(|r| r.pos == need).unwrap_or(false);
                            if a.eq_dyn(w.as_ref()) != Some(true) || b.eq_dyn(w.as_ref()) != Some(true) || !pos_ok {
                                Err(E::End(RunEnd::Violation(v(
                                    "C09/route_mismatch",
                                    kind,
                                    "long_zero",
                                    format!("XorShiftRng from a source that is zero for {} blocks and then delivers a key: from_rng / try_from_rng must equal from_seed(first non-zero block) and consume exactly {} bytes (consumed {:?} / {:?})", src.zero_run / 16, need, ra.map(|r| r.pos), rb.map(|r| r.pos)),
                                ))))
                            } else {
                                Ok(())
                            }
                        }
                        (Err(e), _, _) | (_, Err(e), _) | (_, _, Err(e)) => Err(e),
                    }
                }
                _ => Ok(()),
            },
            _ => Ok(()),
        };
        match r {
            Ok(()) => RunEnd::Ok,
            Err(E::End(e)) => e,
        }
    }
    fn rule(&self) -> String {
        "Each run: one of the 19 seedable types and one sampled source stream (explicit sparse/dense prefix incl. leading all-zero blocks, hash-derived continuation). Per stream: (1) no fault: from_rng, try_from_rng and from_seed(bytes delivered) agree by == and by more than one block of outputs; the source is left advanced by exactly one seed's worth (1024/2048 bytes for ISAAC, 16*(k+1) for XorShiftRng after k zero blocks) through fill_bytes only; for ISAAC the two custom constructors are compared core to core and the state image against a harness randinit model (LE words, two passes). (2) EVERY fault position is enumerated: a clean error at call c for c = 1..=calls_needed+1 and a torn fill (j bytes written, then the error) for every j in 0..len of every needed call (8..64 positions for the small generators, 1024/2048 for ISAAC): the result must be Err carrying the injected token for every position up to the last needed byte, and Ok == from_rng for positions after it. (3) seed_from_u64(x) for one edge/random x: xoshiro family == from_seed(first bytes of the repository's SplitMix64 stream started at x), XorShiftRng/Hc128Rng == from_seed(rand_core's PCG32 expansion written out in the harness), ISAAC state image == randinit(x in the first key word(s), zeros, ONE pass). evaluations counts every constructed case; distinct_nontrivial = distinct (type, route, fault kind, fault call index, torn length bucket) signatures. Every fourth infallible and every third fallible source is handed to the constructor as a zero-sized handle type whose state lives elsewhere (as OsRng-like sources are).".into()
    }
    fn assumptions(&self) -> Vec<String> {
        vec![
            "'SplitMix64 stream started at x' is the repository's own SplitMix64 (whether it equals splitmix64.c is C01)".into(),
            "ISAAC construction is compared on the bincode state image (mem[256], a, b, c), so the check is about construction and independent of generate()".into(),
            "fault positions are enumerated completely per stream; streams and u64 arguments are sampled".into(),
        ]
    }
    fn components(&self) -> serde_json::Value {
        components_std()
    }
    fn exhaustive(&self) -> bool {
        false
    }
    fn required_probes(&self, _tier: Tier) -> Vec<&'static str> {
        vec!["fault:err_at_call", "fault:torn_at_call", "probe:fault_after_last_needed_call", "probe:isaac_state_image_checked", "probe:pcg32_expansion_checked"]
    }
}
