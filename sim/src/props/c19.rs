//! C19 — generators share no hidden state: results are independent of other instances.
//!
//! Static part: Send / Sync of every generator type, evaluated with inherent-const shadowing (so
//! the harness compiles whatever the answer is).
//! Dynamic part: 2..6 instances with their own histories, 1..4 real OS threads; the seeded
//! scheduler decides which instance advances next and on which thread (baton passing: never more
//! than one runnable, so the interleaving replays exactly). Per-instance outputs must equal the
//! outputs of the same instance run ALONE IN A FRESH PROCESS, and the outputs under sequential and
//! reverse-sequential composition.

use super::common::*;
use crate::engine::viol;
use crate::gens::{build_jitter, construct, guard, Constructed, DynGen, Kind, SeedSpec, SutFail, DET_KINDS};
use crate::models::stream::{Call, Out};
use crate::prng::{Digest, Prng};
use crate::spec::{Inst, Op, RunEnd, Scenario, Spec, Stats, Tier};
use std::io::Write;
use std::marker::PhantomData;
use std::process::{Command, Stdio};
use std::sync::mpsc;
use std::sync::Arc;

pub struct C19;

// ------------------------------------------------------------------------------------------
// static part
// ------------------------------------------------------------------------------------------

struct Probe<T>(PhantomData<T>);
trait Fallback {
    const SEND: bool = false;
    const SYNC: bool = false;
}
impl<T> Fallback for Probe<T> {}
#[allow(dead_code)]
impl<T: Send> Probe<T> {
    const SEND: bool = true;
}
#[allow(dead_code)]
impl<T: Sync> Probe<T> {
    const SYNC: bool = true;
}

macro_rules! auto_traits {
    ($( $name:expr => $t:ty ),* $(,)?) => {
        vec![ $( ($name, <Probe<$t>>::SEND, <Probe<$t>>::SYNC) ),* ]
    };
}

pub fn auto_trait_table() -> Vec<(&'static str, bool, bool)> {
    auto_traits![
        "SplitMix64" => rand_xoshiro::SplitMix64,
        "Xoroshiro64Star" => rand_xoshiro::Xoroshiro64Star,
        "Xoroshiro64StarStar" => rand_xoshiro::Xoroshiro64StarStar,
        "Xoroshiro128Plus" => rand_xoshiro::Xoroshiro128Plus,
        "Xoroshiro128PlusPlus" => rand_xoshiro::Xoroshiro128PlusPlus,
        "Xoroshiro128StarStar" => rand_xoshiro::Xoroshiro128StarStar,
        "Xoshiro128Plus" => rand_xoshiro::Xoshiro128Plus,
        "Xoshiro128PlusPlus" => rand_xoshiro::Xoshiro128PlusPlus,
        "Xoshiro128StarStar" => rand_xoshiro::Xoshiro128StarStar,
        "Xoshiro256Plus" => rand_xoshiro::Xoshiro256Plus,
        "Xoshiro256PlusPlus" => rand_xoshiro::Xoshiro256PlusPlus,
        "Xoshiro256StarStar" => rand_xoshiro::Xoshiro256StarStar,
        "Xoshiro512Plus" => rand_xoshiro::Xoshiro512Plus,
        "Xoshiro512PlusPlus" => rand_xoshiro::Xoshiro512PlusPlus,
        "Xoshiro512StarStar" => rand_xoshiro::Xoshiro512StarStar,
        "XorShiftRng" => rand_xorshift::XorShiftRng,
        "Hc128Rng" => rand_hc::Hc128Rng,
        "Hc128Core" => rand_hc::Hc128Core,
        "IsaacRng" => rand_isaac::IsaacRng,
        "IsaacCore" => rand_isaac::isaac::IsaacCore,
        "Isaac64Rng" => rand_isaac::Isaac64Rng,
        "Isaac64Core" => rand_isaac::isaac64::Isaac64Core,
        "JitterRng<fn() -> u64>" => rand_jitter::JitterRng<fn() -> u64>,
    ]
}

fn kind_is_send(kind: Kind) -> bool {
    let t = auto_trait_table();
    let name = if kind == Kind::Jitter { "JitterRng<fn() -> u64>" } else { kind.name() };
    t.iter().find(|x| x.0 == name).map(|x| x.1).unwrap_or(false)
}

// ------------------------------------------------------------------------------------------
// instances, the baton scheduler
// ------------------------------------------------------------------------------------------

/// Moves a generator to another thread. Only constructed after the static part has shown the
/// generator type to be `Send`.
struct Mover(Box<dyn DynGen>);
unsafe impl Send for Mover {}

fn inst_name(inst: &Inst) -> String {
    if is_real_clock_probe(inst) {
        return "the real-clock constructor JitterRng::new(): did it succeed".to_string();
    }
    if inst.shared_scratch && matches!(inst.kind, Kind::Hc128 | Kind::Isaac | Kind::Isaac64) {
        format!("the public core of {}, driven through the scratch block all cores of its type share", inst.kind.name())
    } else {
        inst.kind.name().to_string()
    }
}

fn is_real_clock_probe(inst: &Inst) -> bool {
    inst.kind == Kind::Jitter && inst.clock.is_none()
}

fn build_inst(inst: &Inst) -> Result<Box<dyn DynGen>, String> {
    if is_real_clock_probe(inst) {
        #[cfg(feature = "jstd")]
        let ok = match guard(|| rand_jitter::JitterRng::new().is_ok()) {
            Ok(v) => v,
            Err(SutFail::Panic(m)) => return Err(format!("SUT_PANIC[JitterRng::new]: {}", m)),
            Err(SutFail::ClockAbort) => return Err("clock_abort".into()),
        };
        #[cfg(not(feature = "jstd"))]
        let ok = true;
        return Ok(Box::new(crate::gens::RealClockProbe { ok }));
    }
    if inst.kind == Kind::Jitter {
        let mut g = build_jitter(Arc::new(inst.clock.clone().expect("clock")));
        if let Some(r) = inst.rounds {
            if r > 0 {
                g.jitter().unwrap().set_rounds(r);
            }
        }
        return Ok(g);
    }
    if inst.shared_scratch {
        let ck = match inst.kind {
            Kind::Hc128 => Some(crate::gens::CoreKind::Hc128Core),
            Kind::Isaac => Some(crate::gens::CoreKind::IsaacCore),
            Kind::Isaac64 => Some(crate::gens::CoreKind::Isaac64Core),
            _ => None,
        };
        if let Some(ck) = ck {
            return match crate::gens::construct_core(ck, inst.seed.as_ref().expect("seed")) {
                Ok(crate::gens::CoreConstructed::Ok(c, _)) => Ok(Box::new(crate::gens::SharedCoreGen { core: c, queue: Default::default() })),
                Ok(crate::gens::CoreConstructed::Err(..)) => Err("source_error".into()),
                Err(SutFail::Panic(m)) => Err(format!("SUT_PANIC[construct]: {}", m)),
                Err(SutFail::ClockAbort) => Err("clock_abort".into()),
            };
        }
    }
    match construct(inst.kind, inst.seed.as_ref().expect("seed")) {
        Ok(Constructed::Ok(g, _)) => Ok(g),
        Ok(Constructed::Err(..)) => Err("source_error".into()),
        Err(SutFail::Panic(m)) => Err(format!("SUT_PANIC[construct]: {}", m)),
        Err(SutFail::ClockAbort) => Err("clock_abort".into()),
    }
}

/// one operation; the result goes into the instance's log digest
fn do_op(g: &mut Box<dyn DynGen>, op: &Op, log: &mut Digest) -> Result<(), String> {
    if let Some(j) = g.jitter_ref() {
        let r = j.reads();
        let bulk = if let Op::Fill(n) = op { 8 * *n as u64 } else { 0 };
        j.set_cap(r + 60_000 + bulk);
    }
    let r: Result<Option<Out>, SutFail> = match op {
        Op::U32 => super::c05::do_call(g.as_mut(), Call::U32).map(Some),
        Op::U64 => super::c05::do_call(g.as_mut(), Call::U64).map(Some),
        Op::Fill(n) => super::c05::do_call(g.as_mut(), Call::Fill(*n as usize)).map(Some),
        Op::Jump => guard(|| {
            g.jump();
            None
        }),
        Op::LongJump => guard(|| {
            g.long_jump();
            None
        }),
        Op::TimerStats(v) => {
            if g.kind() == Kind::Jitter {
                guard(|| g.jitter().unwrap().timer_stats(*v)).map(|x| Some(Out::U64(x as u64)))
            } else {
                Ok(None)
            }
        }
        Op::SetRounds(r) => {
            if g.kind() == Kind::Jitter && *r > 0 {
                guard(|| g.jitter().unwrap().set_rounds(*r)).map(|_| None)
            } else {
                Ok(None)
            }
        }
        Op::TestTimer => {
            // the timer test on this instance's own scripted clock; result and state afterwards
            // must not depend on whether any other JitterRng was calibrated before in this process
            if g.kind() == Kind::Jitter {
                let r0 = g.jitter_ref().unwrap().reads();
                g.jitter_ref().unwrap().set_cap(r0 + 1700);
                match guard(|| g.jitter().unwrap().test_timer()) {
                    Ok(r) => {
                        let code = match r {
                            Ok(x) => x as u64,
                            Err(_) => 1000,
                        };
                        let used = g.jitter_ref().unwrap().reads() - r0;
                        Ok(Some(Out::U64((used << 16) | code)))
                    }
                    Err(e) => Err(e),
                }
            } else {
                Ok(None)
            }
        }
        Op::Fork => match guard(|| g.boxed_clone()) {
            Ok(c) => {
                *g = c;
                Ok(None)
            }
            Err(e) => Err(e),
        },
        _ => Ok(None),
    };
    match r {
        Ok(Some(Out::U32(v))) => log.u64(v as u64),
        Ok(Some(Out::U64(v))) => log.u64(v),
        Ok(Some(Out::Bytes(b))) => log.bytes(&b),
        Ok(None) => log.u64(0x77),
        Err(SutFail::Panic(m)) => return Err(format!("SUT_PANIC[op]: {}", m)),
        Err(SutFail::ClockAbort) => return Err("clock_stuck".into()),
    }
    Ok(())
}

/// unrelated activity between two scheduled operations; nothing it returns is logged
fn disturbance(code: u8, salt: u64) {
    let _ = guard(|| match code % 6 {
        0 => {
            // the zero-seed remap and the SplitMix64 expansion helper, on unrelated instances
            for k in [Kind::Xoshiro256PlusPlus, Kind::Xoroshiro64Star, Kind::Xoshiro512Plus, Kind::XorShift] {
                if let Ok(Constructed::Ok(mut g, _)) = construct(k, &SeedSpec::Bytes(vec![0; k.seed_len()])) {
                    let _ = g.next_u64();
                }
                if let Ok(Constructed::Ok(mut g, _)) = construct(k, &SeedSpec::U64(salt)) {
                    let _ = g.next_u32();
                }
            }
        }
        1 => {
            // block generators: create, run across a refill, drop
            for k in [Kind::Hc128, Kind::Isaac, Kind::Isaac64] {
                if let Ok(Constructed::Ok(mut g, _)) = construct(k, &SeedSpec::U64(salt ^ 0x55)) {
                    let mut b = vec![0u8; k.block_bytes() + 5];
                    g.fill_bytes(&mut b);
                }
            }
        }
        2 => {
            // JitterRng::new(): touches the process-wide round-count cache (std only); it reads
            // the real platform clock, so nothing it returns is ever logged or compared
            #[cfg(feature = "jstd")]
            {
                use rand_core::RngCore;
                if let Ok(mut j) = rand_jitter::JitterRng::new() {
                    let _ = j.next_u32();
                }
            }
        }
        5 => {
            // constructions that fail half way: the source delivers part of the key material, then an error
            for (i, k) in [Kind::Isaac, Kind::Isaac64, Kind::Hc128, Kind::XorShift, Kind::Xoshiro256PlusPlus, Kind::Xoroshiro64Star].iter().enumerate() {
                let n = k.from_rng_len() as u64;
                let torn = 1 + (salt.wrapping_mul(2654435761).wrapping_add(i as u64 * 97)) % (n - 1);
                let src = crate::seams::source::SourceSpec {
                    zero_run: 0,
                    prefix: Vec::new(),
                    key: salt ^ 0xfeed,
                    fault: Some(crate::seams::source::SourceFault { call: 1, torn: torn as u32, token: salt }),
                };
                let _ = construct(*k, &SeedSpec::TryFromRng(src));
            }
        }
        4 => {
            // an unrelated JitterRng over its own private counter: operations that produce no
            // output at all (clone, clone_from, set_rounds, timer_stats, Debug, drop)
            use std::sync::atomic::{AtomicU64, Ordering};
            let c = std::sync::Arc::new(AtomicU64::new(salt | 1));
            let n = std::sync::Arc::new(AtomicU64::new(0));
            let c2 = c.clone();
            let mut j = rand_jitter::JitterRng::new_with_timer(move || {
                // hashed step sizes: never constant, never a constant difference for long
                let i = n.fetch_add(1, Ordering::Relaxed);
                let mut z = (i ^ salt).wrapping_mul(0x9e37_79b9_7f4a_7c15);
                z = (z ^ (z >> 30)).wrapping_mul(0xbf58_476d_1ce4_e5b9);
                z ^= z >> 27;
                c2.fetch_add(100 + z % 997, Ordering::Relaxed)
            });
            j.set_rounds(1 + (salt % 3) as u8);
            let mut k = j.clone();
            let _ = k.timer_stats(salt & 1 == 0);
            k.clone_from(&j);
            let _ = format!("{:?}", k);
            if salt % 4 == 0 {
                use rand_core::RngCore;
                let _ = k.next_u32();
            }
        }
        _ => {
            let k = DET_KINDS[(salt % 19) as usize];
            if let Ok(Constructed::Ok(mut g, _)) = construct(k, &SeedSpec::U64(salt)) {
                for _ in 0..(salt % 7) {
                    let _ = g.next_u64();
                }
                let c = g.boxed_clone();
                let _ = c.eq_dyn(g.as_ref());
            }
        }
    });
}

enum Job {
    Build(Inst),
    Op(Mover, Op, Digest),
    Disturb(u8, u64),
}
enum Done {
    Built(Result<Mover, String>),
    Op(Mover, Digest, Result<(), String>),
    Disturb,
}

/// Result: per instance either a digest or an error string.
/// a crowd of idle, live JitterRng instances (each over a private counter): alive while the schedule runs
fn crowd(n: u32) -> Vec<Box<dyn std::any::Any>> {
    use std::sync::atomic::{AtomicU64, Ordering};
    (0..n)
        .map(|i| {
            let c = Arc::new(AtomicU64::new(1_000 + i as u64));
            let j = rand_jitter::JitterRng::new_with_timer(move || c.fetch_add(977 + (i as u64 % 13) * 31, Ordering::Relaxed));
            Box::new(j) as Box<dyn std::any::Any>
        })
        .collect()
}

pub fn run_interleaved(spec: &Spec, mode: &str) -> Vec<Result<u64, String>> {
    let n = spec.insts.len();
    // `spec.pre` idle JitterRng instances are created first and stay alive until the schedule is over (a pool
    // of per-instance resources would run out; the alone baseline has no crowd)
    let _crowd = crowd(spec.pre);
    // instances are constructed lazily, right before their first operation (on the thread that
    // performs it), so that other instances' operations and disturbances can precede construction
    let mut gens: Vec<Option<Box<dyn DynGen>>> = (0..n).map(|_| None).collect();
    let mut built: Vec<bool> = vec![false; n];
    let mut logs: Vec<Digest> = vec![Digest::default(); n];
    let mut errs: Vec<Option<String>> = vec![None; n];
    let mut next_op: Vec<usize> = vec![0; n];
    let finish = |logs: Vec<Digest>, errs: Vec<Option<String>>| -> Vec<Result<u64, String>> {
        logs.into_iter().zip(errs).map(|(l, e)| match e {
            Some(e) => Err(e),
            None => Ok(l.finish()),
        }).collect()
    };
    match mode {
        "seq" | "rev" => {
            // sequential composition in one process, one thread
            let order: Vec<usize> = if mode == "seq" { (0..n).collect() } else { (0..n).rev().collect() };
            for i in order {
                match build_inst(&spec.insts[i]) {
                    Ok(g) => gens[i] = Some(g),
                    Err(e) => errs[i] = Some(e),
                }
                if let Some(g) = gens[i].as_mut() {
                    for op in &spec.insts[i].ops {
                        if let Err(e) = do_op(g, op, &mut logs[i]) {
                            errs[i] = Some(e);
                            break;
                        }
                    }
                }
            }
            return finish(logs, errs);
        }
        "fork" => {
            // The schedule on ONE thread (thread numbers are ignored), and in the middle of it the process
            // forks: the child carries every live instance on, the parent only waits for it. A copy of the
            // process is a copy of every generator; each copy must go on exactly as the original would.
            let fork_at = spec.aux.first().copied().unwrap_or(0) as usize % spec.sched.len().max(1);
            let mut next_op: Vec<usize> = vec![0; n];
            let mut one = |i: usize, gens: &mut Vec<Option<Box<dyn DynGen>>>, logs: &mut Vec<Digest>, errs: &mut Vec<Option<String>>, next_op: &mut Vec<usize>| {
                if errs[i].is_some() || next_op[i] >= spec.insts[i].ops.len() {
                    return;
                }
                if !built[i] {
                    built[i] = true;
                    match build_inst(&spec.insts[i]) {
                        Ok(g) => gens[i] = Some(g),
                        Err(e) => {
                            errs[i] = Some(e);
                            return;
                        }
                    }
                }
                let op = spec.insts[i].ops[next_op[i]].clone();
                next_op[i] += 1;
                if let Some(g) = gens[i].as_mut() {
                    if let Err(e) = do_op(g, &op, &mut logs[i]) {
                        errs[i] = Some(e);
                    }
                }
            };
            for (k, (i, t)) in spec.sched.iter().enumerate() {
                if k == fork_at {
                    use std::io::Write;
                    let _ = std::io::stdout().flush();
                    let pid = unsafe { libc::fork() };
                    if pid > 0 {
                        // parent: the child prints the results
                        let mut status: libc::c_int = 0;
                        unsafe {
                            libc::waitpid(pid, &mut status, 0);
                            libc::_exit(if libc::WIFEXITED(status) { libc::WEXITSTATUS(status) } else { 99 });
                        }
                    }
                    // child (or fork refused: pid < 0): go on
                }
                if *i >= 200 {
                    disturbance(*i - 200, k as u64 * 7919 + *t as u64);
                    continue;
                }
                one(*i as usize, &mut gens, &mut logs, &mut errs, &mut next_op);
            }
            loop {
                let mut any = false;
                for i in 0..n {
                    if errs[i].is_none() && next_op[i] < spec.insts[i].ops.len() {
                        one(i, &mut gens, &mut logs, &mut errs, &mut next_op);
                        any = true;
                    }
                }
                if !any {
                    break;
                }
            }
            return finish(logs, errs);
        }
        _ => {}
    }
    // worker threads
    let nthreads = spec.threads.max(1) as usize;
    let mut txs = Vec::new();
    let (done_tx, done_rx) = mpsc::channel::<Done>();
    let mut handles = Vec::new();
    for _ in 0..nthreads {
        let (tx, rx) = mpsc::channel::<Job>();
        let dtx = done_tx.clone();
        handles.push(std::thread::spawn(move || {
            crate::gens::install_quiet_panic_hook();
            while let Ok(job) = rx.recv() {
                match job {
                    Job::Build(inst) => {
                        if dtx.send(Done::Built(build_inst(&inst).map(Mover))).is_err() {
                            break;
                        }
                    }
                    Job::Op(Mover(mut g), op, mut log) => {
                        let r = do_op(&mut g, &op, &mut log);
                        if dtx.send(Done::Op(Mover(g), log, r)).is_err() {
                            break;
                        }
                    }
                    Job::Disturb(c, s) => {
                        disturbance(c, s);
                        if dtx.send(Done::Disturb).is_err() {
                            break;
                        }
                    }
                }
            }
        }));
        txs.push(tx);
    }
    let mut step = |i: usize, t: usize, gens: &mut Vec<Option<Box<dyn DynGen>>>, logs: &mut Vec<Digest>, errs: &mut Vec<Option<String>>, next_op: &mut Vec<usize>| {
        if i >= n || errs[i].is_some() || next_op[i] >= spec.insts[i].ops.len() {
            return;
        }
        if !built[i] {
            built[i] = true;
            txs[t % nthreads].send(Job::Build(spec.insts[i].clone())).expect("send");
            match done_rx.recv().expect("recv") {
                Done::Built(Ok(Mover(g))) => gens[i] = Some(g),
                Done::Built(Err(e)) => {
                    errs[i] = Some(e);
                    return;
                }
                _ => unreachable!(),
            }
        }
        let g = match gens[i].take() {
            Some(g) => g,
            None => return,
        };
        let op = spec.insts[i].ops[next_op[i]].clone();
        next_op[i] += 1;
        let log = std::mem::take(&mut logs[i]);
        txs[t % nthreads].send(Job::Op(Mover(g), op, log)).expect("send");
        match done_rx.recv().expect("recv") {
            Done::Op(Mover(g), log, r) => {
                gens[i] = Some(g);
                logs[i] = log;
                if let Err(e) = r {
                    errs[i] = Some(e);
                }
            }
            _ => unreachable!(),
        }
    };
    for (k, (i, t)) in spec.sched.iter().enumerate() {
        if *i >= 200 {
            txs[*t as usize % nthreads].send(Job::Disturb(*i - 200, k as u64 * 7919 + *t as u64)).expect("send");
            let _ = done_rx.recv();
            continue;
        }
        step(*i as usize, *t as usize, &mut gens, &mut logs, &mut errs, &mut next_op);
    }
    // whatever the schedule left over: round robin over instances and threads
    let mut t = 0usize;
    loop {
        let mut any = false;
        for i in 0..n {
            if errs[i].is_none() && next_op[i] < spec.insts[i].ops.len() {
                step(i, t, &mut gens, &mut logs, &mut errs, &mut next_op);
                t += 1;
                any = true;
            }
        }
        if !any {
            break;
        }
    }
    drop(step);
    drop(txs);
    for h in handles {
        let _ = h.join();
    }
    finish(logs, errs)
}

pub fn run_alone(spec: &Spec, i: usize) -> Result<u64, String> {
    let inst = &spec.insts[i];
    if inst.ops.is_empty() {
        // never constructed in the interleaved run either
        return Ok(Digest::default().finish());
    }
    let mut g = build_inst(inst)?;
    let mut log = Digest::default();
    for op in &inst.ops {
        do_op(&mut g, op, &mut log)?;
    }
    Ok(log.finish())
}

fn fmt_results(v: &[Result<u64, String>]) -> String {
    v.iter().map(|r| match r {
        Ok(d) => format!("ok {}", d),
        Err(e) => format!("err {}", e.replace('\n', " ")),
    }).collect::<Vec<_>>().join("\n")
}

/// process entry points: `rngsim c19run <mode>` / `rngsim alone <i>`; spec JSON on stdin
pub fn proc_main(mode: &str, arg: &str) -> i32 {
    // a child must not outlive the worker that spawned it (a worker stopped by its watchdog would
    // otherwise leave a spinning child behind): die with the parent
    unsafe {
        libc::prctl(libc::PR_SET_PDEATHSIG, libc::SIGKILL);
    }
    let mut txt = String::new();
    std::io::Read::read_to_string(&mut std::io::stdin(), &mut txt).expect("stdin");
    let spec: Spec = serde_json::from_str(&txt).expect("spec");
    crate::engine::set_run_environment(&spec);
    if mode == "alone" {
        let i: usize = arg.parse().expect("index");
        println!("{}", fmt_results(&[run_alone(&spec, i)]));
    } else {
        println!("{}", fmt_results(&run_interleaved(&spec, arg)));
    }
    0
}

fn spawn(args: &[&str], spec_json: &str) -> Result<Vec<Result<u64, String>>, String> {
    // a loaded machine can refuse a fork now and then: retry before calling it a harness error
    let mut last = String::new();
    for attempt in 0..4 {
        match spawn_once(args, spec_json) {
            Ok(v) => return Ok(v),
            Err(e) => {
                last = e;
                std::thread::sleep(std::time::Duration::from_millis(50 << attempt));
            }
        }
    }
    Err(last)
}

fn spawn_once(args: &[&str], spec_json: &str) -> Result<Vec<Result<u64, String>>, String> {
    let exe = std::env::current_exe().map_err(|e| e.to_string())?;
    let mut ch = Command::new(exe).args(args).stdin(Stdio::piped()).stdout(Stdio::piped()).stderr(Stdio::null()).spawn().map_err(|e| e.to_string())?;
    ch.stdin.take().unwrap().write_all(spec_json.as_bytes()).map_err(|e| e.to_string())?;
    let out = ch.wait_with_output().map_err(|e| e.to_string())?;
    if !out.status.success() {
        return Err(format!("child {:?} exited with {:?}", args, out.status));
    }
    let s = String::from_utf8_lossy(&out.stdout);
    Ok(s.lines().filter(|l| !l.is_empty()).map(|l| {
        if let Some(d) = l.strip_prefix("ok ") {
            d.trim().parse::<u64>().map_err(|e| e.to_string())
        } else {
            Err(l.trim_start_matches("err ").to_string())
        }
    }).collect())
}

fn gen_inst(rng: &mut Prng) -> Inst {
    if rng.chance(1, 8) {
        // rounds None = the constructor's default is used (never overridden by set_rounds)
        let rounds = if rng.chance(1, 3) { None } else { Some(rng.range(1, 4) as u8) };
        let max_ops = if rounds.is_none() { 2 } else { 5 };
        let ops: Vec<Op> = gen_output_ops(rng, Kind::Jitter, max_ops).into_iter().map(|o| if let Op::Fill(n) = o { Op::Fill(n % 17) } else { o }).collect();
        let mut ops = ops;
        let mut n_clock = 200;
        if rng.chance(1, 3) {
            let at = rng.below(ops.len() as u64 + 1) as usize;
            ops.insert(at, if rng.chance(1, 2) { Op::TimerStats(rng.chance(1, 2)) } else { Op::SetRounds(rng.range(1, 3) as u8) });
        }
        if rng.chance(1, 3) {
            // calibrate first, as the documented idiom does
            ops.insert(0, Op::TestTimer);
            n_clock = 1900;
        }
        if rng.chance(1, 3) {
            // an operation that produces no output: the instance is replaced by its clone
            let at = rng.below(ops.len() as u64 + 1) as usize;
            ops.insert(at, Op::Fork);
        }
        let mut clock = gen_plain_clock(rng, n_clock);
        if rng.chance(1, 6) {
            // this instance's own timer goes through a long stall / constant-rate stretch
            let (c, _) = crate::clockgen::gen_clock(rng, &crate::clockgen::ClockCfg { n: n_clock, faults: vec![crate::clockgen::CF::Stall], rate_per_1000: 6, max_stretch: 4, long_stuck: true });
            clock = c;
        }
        if rng.chance(1, 3) {
            // a timer that counts in steps of q: every delta of this instance has the common factor q
            let q = *rng.pick(&[2u64, 4, 8, 8, 10, 16, 25, 64, 1000]);
            let t0 = clock.readings.first().copied().unwrap_or(0);
            for r in clock.readings.iter_mut() {
                *r = t0.wrapping_add(r.wrapping_sub(t0).wrapping_mul(q));
            }
        }
        return Inst { kind: Kind::Jitter, seed: None, clock: Some(clock), rounds, ops, shared_scratch: false };
    }
    let kind = pick_det_kind(rng);
    // seeding routes that go through shared-looking helpers are over-weighted
    let seed = match rng.below(6) {
        0 => SeedSpec::Bytes(vec![0; kind.seed_len()]),
        1 => SeedSpec::U64(0),
        2 => SeedSpec::U64(rng.edge_u64()),
        _ => gen_seed(rng, kind),
    };
    let seed = if rng.chance(1, 8) {
        // a construction that FAILS: the source writes part of the key material and then returns an error
        let mut src = gen_source(rng, kind);
        let n = kind.from_rng_len() as u64;
        src.fault = Some(crate::seams::source::SourceFault { call: 1, torn: rng.range(1, n.max(2) - 1) as u32, token: rng.u64() });
        SeedSpec::TryFromRng(src)
    } else {
        seed
    };
    let mut ops = gen_output_ops(rng, kind, 14);
    if kind.has_jump() && rng.chance(1, 3) {
        let at = rng.below(ops.len() as u64 + 1) as usize;
        ops.insert(at, if rng.chance(1, 2) { Op::Jump } else { Op::LongJump });
    }
    if rng.chance(1, 4) {
        let at = rng.below(ops.len() as u64 + 1) as usize;
        ops.insert(at, Op::Fork);
    }
    let shared_scratch = matches!(kind, Kind::Hc128 | Kind::Isaac | Kind::Isaac64) && rng.chance(1, 2);
    Inst { kind, seed: Some(seed), clock: None, rounds: None, ops, shared_scratch }
}

impl Scenario for C19 {
    fn id(&self) -> &'static str {
        "C19"
    }
    fn level(&self) -> &'static str {
        "exploration"
    }
    fn runs(&self, tier: Tier) -> u64 {
        match tier {
            Tier::Quick => 4_000,
            Tier::Thorough => 200_000,
        }
    }
    fn generate(&self, rng: &mut Prng, _tier: Tier) -> Spec {
        let mut spec = Spec { prop: "C19".into(), ..Default::default() };
        if rng.chance(1, 50) {
            spec.variant = "static".into();
            return spec;
        }
        if rng.chance(1, 40) {
            // re-entrancy: one JitterRng advanced from inside the timer callback of another one
            return super::c12::gen_nested_spec(rng, "C19", "nested");
        }
        if rng.chance(1, 800) {
            // free-running native threads (the one place where the interleaving is NOT decided by the simulator:
            // a race between two writers of a process-wide cache needs real overlap of a few instructions, which
            // neither the baton scheduler nor a few dozen Miri schedules reach). aux = [trials, threads, key]
            spec.variant = "native_race".into();
            // (a short one here; the long search runs on its own after the workers are done: `rngsim c19race`)
            spec.aux = vec![800, 4, rng.u64()];
            return spec;
        }
        if rng.chance(1, 70) {
            // failing callback: the timer of one JitterRng unwinds in the middle of its timer test (or of an output
            // call) and its owner contains that; the instance has no result, here and alone. The OTHER instances
            // must go on as if nothing had happened (a lock held across the callback stays poisoned, a "test in
            // progress" flag stays set ...)
            spec.variant = "schedule".into();
            let mut a_clock = gen_plain_clock(rng, 1_900);
            a_clock.abort_at = Some(rng.range(1, 1_500));
            let a_ops = if rng.chance(2, 3) { vec![Op::TestTimer] } else { vec![Op::U64, Op::TestTimer] };
            let a = Inst { kind: Kind::Jitter, seed: None, clock: Some(a_clock), rounds: Some(rng.range(1, 3) as u8), ops: a_ops, shared_scratch: false };
            let mut b_ops = vec![Op::TestTimer];
            b_ops.extend((0..rng.range(1, 4)).map(|_| Op::U64));
            let b = Inst { kind: Kind::Jitter, seed: None, clock: Some(gen_plain_clock(rng, 1_900)), rounds: Some(rng.range(1, 3) as u8), ops: b_ops, shared_scratch: false };
            let probe = Inst { kind: Kind::Jitter, seed: None, clock: None, rounds: None, ops: vec![Op::U32], shared_scratch: false };
            spec.logger = rng.chance(1, 4);
            spec.threads = rng.range(1, 2) as u8;
            spec.insts = if rng.chance(1, 3) { vec![a, b, probe] } else { vec![a, b] };
            let mut sched: Vec<(u8, u8)> = Vec::new();
            for _ in 0..spec.insts[0].ops.len() {
                sched.push((0, 0));
            }
            for i in 1..spec.insts.len() {
                for _ in 0..spec.insts[i].ops.len() {
                    sched.push((i as u8, rng.below(spec.threads as u64) as u8));
                }
            }
            spec.sched = sched;
            return spec;
        }
        if rng.chance(1, 60) {
            // failed calibration: a JitterRng over a scripted timer that FAILS its timer test, and the real-clock
            // constructor JitterRng::new() as an instance of its own (all that is compared about it is whether
            // it succeeded): whether the machine's clock is usable cannot depend on what another instance's
            // timer looked like
            spec.variant = "schedule".into();
            let readings: Vec<u64> = match rng.below(4) {
                0 => vec![0; 8],                                                    // zero reading: NoTimer
                1 => vec![5_000; 8],                                                // equal readings: CoarseTimer
                2 => (0..1_700u64).map(|i| 4_000_000_000 - 1_000 * i - (i % 7)).collect(), // counts down: NotMonotonic
                _ => (0..1_700u64).map(|i| 1_000 + 1_000 * i).collect(),          // constant rate: stuck / tiny variations
            };
            let failing = Inst {
                kind: Kind::Jitter,
                seed: None,
                clock: Some(crate::seams::clock::ClockSpec { readings, tail_key: rng.u64(), fork_skews: vec![], freeze: None, abort_at: None }),
                rounds: None,
                ops: vec![Op::TestTimer],
                shared_scratch: false,
            };
            let probe = Inst { kind: Kind::Jitter, seed: None, clock: None, rounds: None, ops: vec![Op::U32], shared_scratch: false };
            spec.logger = rng.chance(1, 3);
            spec.threads = 1;
            if rng.chance(3, 4) {
                spec.insts = vec![failing, probe];
                spec.sched = vec![(0, 0), (1, 0)];
            } else {
                spec.insts = vec![probe, failing];
                spec.sched = vec![(0, 0), (1, 0)];
            }
            return spec;
        }
        if rng.chance(1, 100) {
            // census: one JitterRng brings the number of collections made IN THIS PROCESS to just below 2^16
            // (one bulk request at one round per collection), a second one then makes a few dozen - with a
            // logger that accepts everything. Alone in its process the second one is nowhere near that count:
            // anything keyed on a process-wide tally of operations (rate-limited reporting, periodic self
            // tests, reseeding policies) falls inside its history here and outside there
            spec.variant = "schedule".into();
            spec.logger = true;
            let k = rng.below(40) as u32;
            let filler = Inst { kind: Kind::Jitter, seed: None, clock: Some(gen_plain_clock(rng, 200)), rounds: Some(1), ops: vec![Op::Fill(8 * (65_536 - k))], shared_scratch: false };
            let a_ops: Vec<Op> = (0..rng.range(45, 60)).map(|_| if rng.chance(1, 4) { Op::U32 } else { Op::U64 }).collect();
            let a = Inst { kind: Kind::Jitter, seed: None, clock: Some(gen_plain_clock(rng, 600)), rounds: Some(rng.range(1, 3) as u8), ops: a_ops, shared_scratch: false };
            spec.threads = rng.range(1, 2) as u8;
            let mut sched = vec![(0u8, 0u8)];
            for _ in 0..a.ops.len() {
                sched.push((1, rng.below(spec.threads as u64) as u8));
            }
            spec.sched = sched;
            spec.insts = vec![filler, a];
            return spec;
        }
        if rng.chance(1, 14) {
            // scratch family: two to four public block CORES of one type, all driven through the one scratch
            // block their owner keeps for that type; each produces several blocks, interleaved block by
            // block - what another core left in the out-parameter must not matter
            spec.variant = "schedule".into();
            let kind = *rng.pick(&[Kind::Isaac, Kind::Isaac64, Kind::Hc128]);
            let block_bytes: u32 = match kind {
                Kind::Isaac => 1024,
                Kind::Isaac64 => 2048,
                _ => 64,
            };
            let n = rng.range(2, 4) as usize;
            let mut insts: Vec<Inst> = Vec::new();
            for _ in 0..n {
                let mut ops = Vec::new();
                for _ in 0..rng.range(2, 5) {
                    ops.push(match rng.below(4) {
                        0 => Op::Fill(block_bytes),
                        1 => Op::Fill(block_bytes + rng.below(40) as u32),
                        2 => Op::Fill(block_bytes / 2 + rng.below(9) as u32),
                        _ => Op::Fill(2 * block_bytes + rng.below(9) as u32),
                    });
                    if rng.chance(1, 2) {
                        ops.push(if rng.chance(1, 2) { Op::U32 } else { Op::U64 });
                    }
                }
                let seed = if !insts.is_empty() && rng.chance(1, 3) { insts[0_usize].seed.clone().unwrap() } else { gen_seed(rng, kind) };
                insts.push(Inst { kind, seed: Some(seed), clock: None, rounds: None, ops, shared_scratch: true });
            }
            spec.threads = rng.range(1, 3) as u8;
            let total: usize = insts.iter().map(|i: &Inst| i.ops.len()).sum();
            let mut sched = Vec::new();
            for k in 0..total + n {
                let i = if rng.chance(2, 3) { (k % n) as u8 } else { rng.below(n as u64) as u8 };
                sched.push((i, rng.below(spec.threads as u64) as u8));
            }
            // (instances whose operations are not used up by the schedule finish in order afterwards)
            spec.sched = sched;
            spec.insts = insts;
            return spec;
        }
        if rng.chance(1, 12) {
            // jump family: three to five instances of ONE jump-capable type, seeds drawn from a pool of two,
            // the same short history and then jump() or long_jump() - same-state siblings doing different
            // kinds of jump next to strangers doing the same kind (a memo of jump results would be keyed on
            // exactly these things)
            spec.variant = "schedule".into();
            let kinds: Vec<Kind> = DET_KINDS.iter().copied().filter(|k| k.has_jump()).collect();
            let kind = *rng.pick(&kinds);
            let seeds = [gen_seed(rng, kind), gen_seed(rng, kind)];
            let pre = gen_output_ops(rng, kind, 3);
            let with_pre = rng.chance(1, 2);
            let n = rng.range(3, 5) as usize;
            let mut insts = Vec::new();
            for _ in 0..n {
                let mut ops = if with_pre { pre.clone() } else { Vec::new() };
                ops.push(if rng.chance(1, 2) { Op::Jump } else { Op::LongJump });
                ops.extend(gen_output_ops(rng, kind, 3));
                if rng.chance(1, 3) {
                    ops.push(if rng.chance(1, 2) { Op::Jump } else { Op::LongJump });
                    ops.push(Op::U64);
                }
                insts.push(Inst { kind, seed: Some(rng.pick(&seeds).clone()), clock: None, rounds: None, ops, shared_scratch: false });
            }
            spec.threads = rng.range(1, 3) as u8;
            // whole instances one after the other, in a random order, now and then interleaved op by op
            let mut order: Vec<u8> = (0..n as u8).collect();
            for i in (1..order.len()).rev() {
                let j = rng.below(i as u64 + 1) as usize;
                order.swap(i, j);
            }
            let mut sched = Vec::new();
            if rng.chance(2, 3) {
                for i in &order {
                    let t = rng.below(spec.threads as u64) as u8;
                    for _ in 0..insts[*i as usize].ops.len() {
                        sched.push((*i, t));
                    }
                }
            } else {
                let total: usize = insts.iter().map(|i| i.ops.len()).sum();
                for k in 0..total + n {
                    sched.push((order[k % n], rng.below(spec.threads as u64) as u8));
                }
            }
            spec.sched = sched;
            spec.insts = insts;
            return spec;
        }
        spec.variant = "schedule".into();
        // the process's logging configuration (a logger that accepts everything) must not couple instances either
        spec.logger = rng.chance(1, 4);
        let n = rng.range(2, 6) as usize;
        // same-type, same-seed instances are likely to collide in a shared cache: bias towards them
        let mut insts: Vec<Inst> = Vec::new();
        // one run in ten consists of JitterRng instances only (each over its own private clock)
        let jitter_heavy = rng.chance(1, 10);
        for _ in 0..n {
            if !insts.is_empty() && rng.chance(1, 3) {
                let mut c = rng.pick(&insts).clone();
                if c.kind != Kind::Jitter && rng.chance(1, 2) {
                    c.ops = gen_output_ops(rng, c.kind, 14);
                }
                // near-equal clocks: this instance's private timer runs a few ticks ahead of / behind the
                // other one's (numeric proximity between the readings of unrelated timers)
                if c.kind == Kind::Jitter && rng.chance(2, 3) {
                    if let Some(cl) = c.clock.as_mut() {
                        let d = rng.range(1, 64);
                        let ahead = rng.chance(1, 2);
                        let wobble = rng.chance(1, 3);
                        for r in cl.readings.iter_mut() {
                            let e = d + if wobble { rng.below(3) } else { 0 };
                            *r = if ahead { r.wrapping_add(e) } else { r.wrapping_sub(e) };
                        }
                    }
                }
                // near-equal seeds (a cache keyed on part of the seed would confuse them)
                if rng.chance(1, 2) {
                    match c.seed.as_mut() {
                        Some(SeedSpec::Bytes(b)) if !b.is_empty() => {
                            let i = match rng.below(3) {
                                0 => b.len() - 1 - rng.below(4.min(b.len() as u64)) as usize,
                                1 => rng.below(4.min(b.len() as u64)) as usize,
                                _ => rng.below(b.len() as u64) as usize,
                            };
                            b[i] ^= 1 << rng.below(8);
                        }
                        Some(SeedSpec::U64(x)) => *x ^= 1u64 << rng.below(64),
                        Some(SeedSpec::FromRng(src)) | Some(SeedSpec::TryFromRng(src)) => {
                            let n = c.kind.from_rng_len();
                            let mut p = src.bytes(0, n);
                            let i = rng.below(n as u64) as usize;
                            p[i] ^= 1 << rng.below(8);
                            src.prefix = p;
                        }
                        _ => {}
                    }
                }
                insts.push(c);
            } else {
                let mut i = gen_inst(rng);
                if jitter_heavy {
                    spec.pre = *rng.pick(&[0u32, 0, 15, 16, 40]);
                    while i.kind != Kind::Jitter {
                        i = gen_inst(rng);
                    }
                }
                insts.push(i);
            }
        }
        spec.threads = rng.range(1, 4) as u8;
        let total_ops: usize = insts.iter().map(|i| i.ops.len()).sum();
        let mut sched = Vec::new();
        let style = rng.below(4);
        let mut cur_t = 0u8;
        for k in 0..total_ops + total_ops / 4 {
            if rng.chance(1, 9) {
                sched.push((200 + rng.below(6) as u8, rng.below(spec.threads as u64) as u8));
                continue;
            }
            let i = match style {
                0 => (k % n) as u8,                     // strict round robin
                1 => rng.below(n as u64) as u8,         // uniform
                _ => {
                    // bursts
                    if rng.chance(1, 3) || sched.is_empty() { rng.below(n as u64) as u8 } else { sched.last().map(|s: &(u8, u8)| if s.0 < 200 { s.0 } else { 0 }).unwrap() }
                }
            };
            // migrate to another thread now and then
            if rng.chance(1, 3) {
                cur_t = rng.below(spec.threads as u64) as u8;
            }
            sched.push((i, cur_t));
        }
        if rng.chance(1, 6) && !sched.is_empty() {
            spec.aux = vec![rng.below(sched.len() as u64)];
        }
        spec.sched = sched;
        spec.insts = insts;
        spec
    }

    fn execute(&self, spec: &Spec, st: &mut Stats) -> RunEnd {
        st.evals += 1;
        if spec.variant == "static" {
            let t = auto_trait_table();
            st.count("probe:static_send_sync_table");
            for (name, send, sync) in &t {
                st.sig(&[9, crate::prng::hstr(name)]);
                if !send || !sync {
                    return viol("C19/not_send_sync", format!("{}:auto_traits", name), format!("{}: Send = {}, Sync = {}", name, send, sync));
                }
            }
            return RunEnd::Ok;
        }
        if spec.variant == "native_race" {
            return native_race(spec, st);
        }
        if spec.variant == "nested" {
            // the same operations of the same generator, once on their own and once each from inside a
            // timer reading of another JitterRng's collection on the same thread
            let alone = match super::c12::run_nested(spec, false) {
                Ok(v) => v,
                Err(e) => return e,
            };
            let nested = match super::c12::run_nested(spec, true) {
                Ok(v) => v,
                Err(e) => return e,
            };
            st.count("probe:nested_in_timer_callback");
            st.sig(&[8, spec.aux[1], spec.aux[2], spec.ops.len() as u64]);
            for (o, _) in &alone {
                super::c05::log_out(st, o);
            }
            if alone != nested {
                let i = alone.iter().zip(nested.iter()).position(|(a, b)| a != b).unwrap_or(alone.len().min(nested.len()));
                return viol(
                    "C19/depends_on_other_instances",
                    "JitterRng:nested",
                    format!(
                        "JitterRng advanced from inside the timer callback of another JitterRng (same thread, outer reading index % {} == {}): operation #{} gives {:?} (output, readings so far), alone it gives {:?}",
                        spec.aux[1], spec.aux[2], i, nested.get(i), alone.get(i)
                    ),
                );
            }
            return RunEnd::Ok;
        }
        // moving a generator between threads is only legal when its type is Send
        for inst in &spec.insts {
            if !kind_is_send(inst.kind) {
                return viol("C19/not_send_sync", format!("{}:auto_traits", inst.kind.name()), format!("{} is not Send", inst.kind.name()));
            }
        }
        let json = serde_json::to_string(spec).unwrap();
        // one schedule in six runs on one thread and FORKS the process in the middle (aux[0] = where)
        let mode = if spec.aux.is_empty() { "sched" } else { "fork" };
        if mode == "fork" {
            st.count("fault:process_forked");
        }
        let inter = match spawn(&["c19run", mode], &json) {
            Ok(v) => v,
            Err(e) => return RunEnd::Discard(format!("HARNESS_PANIC: c19run: {}", e)),
        };
        let n = spec.insts.len();
        if inter.len() != n {
            return RunEnd::Discard(format!("HARNESS_PANIC: c19run returned {} results for {} instances", inter.len(), n));
        }
        // signature: the (instance, thread) sequence, bucketed
        let mut switches = 0u64;
        let mut migrations = 0u64;
        let mut last: Option<(u8, u8)> = None;
        let mut last_thread_of = vec![255u8; n];
        let mut disturb = 0u64;
        let mut d = Digest::default();
        for s in &spec.sched {
            d.u64(((s.0 as u64) << 8) | s.1 as u64);
            if s.0 >= 200 {
                disturb += 1;
                continue;
            }
            if let Some(l) = last {
                if l.0 != s.0 {
                    switches += 1;
                }
            }
            let i = s.0 as usize;
            if i < n {
                if last_thread_of[i] != 255 && last_thread_of[i] != s.1 {
                    migrations += 1;
                }
                last_thread_of[i] = s.1;
            }
            last = Some(*s);
        }
        if switches >= 1 && migrations >= 1 {
            st.sig(&[d.finish()]);
            st.count("probe:schedule_with_interleave_and_migration");
        }
        st.add("fault:interleave", switches);
        st.add("fault:migrate", migrations);
        st.add("fault:spawn_disturbance", disturb);
        let mut kinds_mask = 0u64;
        for i in &spec.insts {
            kinds_mask |= 1 << i.kind.id();
        }
        let _ = kinds_mask;
        for r in &inter {
            match r {
                Ok(dg) => st.log.u64(*dg),
                Err(e) => st.log.str(e),
            }
        }
        // baselines: each instance alone in a fresh process
        for i in 0..n {
            let alone = match spawn(&["alone", &i.to_string()], &json) {
                Ok(v) if v.len() == 1 => v.into_iter().next().unwrap(),
                Ok(_) => return RunEnd::Discard("HARNESS_PANIC: alone returned no result".into()),
                Err(e) => return RunEnd::Discard(format!("HARNESS_PANIC: alone: {}", e)),
            };
            st.count("probe:alone_baselines");
            match (&inter[i], &alone) {
                (Ok(a), Ok(b)) if a == b => {}
                (Err(a), Err(b)) if a.starts_with("SUT_PANIC") || b.starts_with("SUT_PANIC") => return RunEnd::Discard(a.clone()),
                (Err(_), Err(_)) => {}
                (a, b) => {
                    if let (Err(e), _) | (_, Err(e)) = (a, b) {
                        // an operation that panics next to other instances and returns a value alone (or the other
                        // way round) depends on them like any other difference; a panic on both sides is C14's matter
                        let one_sided = a.is_ok() != b.is_ok();
                        if e.starts_with("SUT_PANIC") && !one_sided {
                            return RunEnd::Discard(e.clone());
                        }
                        if e == "clock_stuck" {
                            return RunEnd::Discard("clock_stuck".into());
                        }
                    }
                    if is_real_clock_probe(&spec.insts[i]) {
                        // the verdict of the machine's own clock can be unstable: the difference must repeat twice
                        // more, with fresh processes on both sides, before it is believed
                        let mut stable = true;
                        for _ in 0..2 {
                            let again_inter = spawn(&["c19run", mode], &json).ok().and_then(|v| v.get(i).cloned());
                            let again_alone = spawn(&["alone", &i.to_string()], &json).ok().and_then(|v| v.into_iter().next());
                            if again_inter.as_ref() != Some(a) || again_alone.as_ref() != Some(b) {
                                stable = false;
                            }
                        }
                        if !stable {
                            st.count("probe:real_clock_verdict_unstable");
                            continue;
                        }
                    }
                    return viol(
                        "C19/depends_on_other_instances",
                        format!("{}:schedule", spec.insts[i].kind.name()),
                        format!("instance {} ({}): outputs under the interleaved schedule ({} instances, {} threads, {} switches, {} migrations) differ from the same instance run alone in a fresh process: {:?} vs {:?}", i, inst_name(&spec.insts[i]), n, spec.threads, switches, migrations, a, b),
                    );
                }
            }
        }
        // sequential and reverse-sequential composition in one process
        let inter_mode = mode;
        for mode in ["seq", "rev"] {
            let v = match spawn(&["c19run", mode], &json) {
                Ok(v) => v,
                Err(e) => return RunEnd::Discard(format!("HARNESS_PANIC: c19run {}: {}", mode, e)),
            };
            st.count("probe:sequential_compositions");
            for i in 0..n.min(v.len()) {
                if let (Ok(a), Ok(b)) = (&inter[i], &v[i]) {
                    if a != b && is_real_clock_probe(&spec.insts[i]) {
                        // (as above: the machine's own clock - the difference must repeat twice more)
                        let mut stable = true;
                        for _ in 0..2 {
                            let x = spawn(&["c19run", inter_mode], &json).ok().and_then(|v| v.get(i).cloned());
                            let y = spawn(&["c19run", mode], &json).ok().and_then(|v| v.get(i).cloned());
                            if x != Some(Ok(*a)) || y != Some(Ok(*b)) {
                                stable = false;
                            }
                        }
                        if !stable {
                            st.count("probe:real_clock_verdict_unstable");
                            continue;
                        }
                    }
                    if a != b {
                        return viol(
                            "C19/depends_on_other_instances",
                            format!("{}:{}", spec.insts[i].kind.name(), mode),
                            format!("instance {} ({}): outputs under the interleaved schedule differ from {} composition in one process", i, inst_name(&spec.insts[i]), if mode == "seq" { "sequential" } else { "reverse-sequential" }),
                        );
                    }
                }
            }
        }
        RunEnd::Ok
    }

    fn rule(&self) -> String {
        "Static: Send and Sync of the 19 deterministic generator types, the 3 cores, JitterRng<fn() -> u64>, evaluated at compile time by inherent-const shadowing. Dynamic, per run: 2..6 generator instances of mixed types (deterministic generators through every seeding route with zero seeds / seed_from_u64(0) over-weighted, duplicates of the same type and seed, JitterRng instances each over its own scripted clock), each with its own history of next_u32/next_u64/fill_bytes/jump/clone (JitterRng instances sometimes start with test_timer on their own clock), and 1..4 worker threads. The seeded scheduler repeatedly picks (instance, thread): ownership of the instance is MOVED to that OS thread, which performs exactly one operation and hands the baton back (never more than one runnable thread, so the interleaving replays exactly); schedule styles: round robin, uniform, bursts; thread migrations; disturbances between steps (unrelated generators created/seeded/dropped incl. the zero-seed remap and SplitMix64 expansion, block generators run across a refill, JitterRng::new() which touches the process-wide JITTER_ROUNDS cache). The interleaved run executes in its own fresh process; every instance is also run ALONE in its own fresh process, and all instances under sequential and reverse-sequential composition in one further process each; per-instance output digests must be identical in all of them. distinct_nontrivial = distinct (instance, thread) sequences with at least one interleave and one migration (plus one signature per type of the static table). Further: block generators also take part as their public CORE driven through one scratch block shared by all cores of that type (scratch family: 2..4 such cores, several blocks each, interleaved); JitterRng instances are cloned inside schedules; a disturbance clones/clone_froms/formats an unrelated JitterRng; duplicates of a JitterRng instance get a private clock 1..64 ticks ahead of / behind the original's; one JitterRng instance in three counts in steps of q; one run in ten consists of JitterRng instances only; (nested) the same operations of one JitterRng run once on their own and once each from inside a timer reading of another JitterRng's collection on the same thread. Schedules run under a logger that accepts every record one time in four; census family: one JitterRng brings the process to 2^16 - k collections (k < 40) in one bulk request, a second one then makes 45..60. The real-clock constructor JitterRng::new() also takes part as an instance whose only output is whether it succeeded (family failed_calibration: next to a scripted timer that fails its timer test); a difference there must repeat twice more in fresh processes. (failing_callback) the timer callback of one JitterRng unwinds at a chosen reading, its owner contains that; the other instances must go on unaffected. An operation that panics in the schedule and returns alone (or the reverse) is a difference like any other.".into()
    }
    fn assumptions(&self) -> Vec<String> {
        vec![
            "interleavings are at operation granularity (pre-emption inside an operation is the Miri part of the thorough tier, see DESIGN.md)".into(),
            "JitterRng::new() reads the real platform clock; it is only called as a disturbance and nothing it returns is logged or compared".into(),
        ]
    }
    fn components(&self) -> serde_json::Value {
        components_std()
    }
    fn required_probes(&self, _tier: Tier) -> Vec<&'static str> {
        vec!["probe:static_send_sync_table", "probe:schedule_with_interleave_and_migration", "probe:alone_baselines", "fault:interleave", "fault:migrate", "fault:spawn_disturbance"]
    }
}


/// Threads released at the same instant key fresh generators from their own, distinct seeds (the key
/// schedules of HC-128 and ISAAC are where a shared cache or scratch buffer would sit) and draw a few
/// values; when all are idle again the main thread keys the same seeds alone. Every generator must give
/// what its seed gives alone - during the overlap and after it.
pub fn native_race(spec: &Spec, st: &mut Stats) -> RunEnd {
    use std::sync::atomic::{AtomicBool, Ordering};
    let (trials, threads, key) = (spec.aux[0], spec.aux[1].clamp(2, 4) as usize, spec.aux[2]);
    fn keyed(kind: u64, s: u64) -> Result<[u64; 4], SutFail> {
        let k = match kind % 4 {
            0 | 1 => Kind::Hc128,
            2 => Kind::Isaac,
            _ => Kind::Isaac64,
        };
        let mut b = vec![0u8; k.seed_len()];
        b[..8].copy_from_slice(&s.to_le_bytes());
        let seed = if kind % 8 < 4 { SeedSpec::Bytes(b) } else { SeedSpec::U64(s) };
        match construct(k, &seed)? {
            Constructed::Ok(mut g, _) => guard(|| [g.next_u64(), g.next_u64(), g.next_u64(), g.next_u64()]),
            Constructed::Err(..) => Ok([0; 4]),
        }
    }
    st.evals += 1;
    st.count("probe:native_race_trials");
    for trial in 0..trials {
        let seeds: Vec<(u64, u64)> = (0..threads as u64).map(|t| (crate::prng::h2(key, trial * 8 + t) >> 3, crate::prng::h2(key ^ 0x5eed, trial * 8 + t))).collect();
        let go = AtomicBool::new(false);
        let during: Vec<Result<[u64; 4], SutFail>> = std::thread::scope(|sc| {
            let hs: Vec<_> = seeds
                .iter()
                .map(|(k, s)| {
                    let go = &go;
                    let (k, s) = (*k, *s);
                    sc.spawn(move || {
                        crate::gens::install_quiet_panic_hook();
                        while !go.load(Ordering::Acquire) {
                            std::hint::spin_loop();
                        }
                        keyed(k, s)
                    })
                })
                .collect();
            go.store(true, Ordering::Release);
            hs.into_iter().map(|h| h.join().unwrap_or(Err(SutFail::Panic("thread died".into())))).collect()
        });
        for (t, (k, s)) in seeds.iter().enumerate() {
            let alone = keyed(*k, *s);
            match (&during[t], &alone) {
                (Ok(a), Ok(b)) if a == b => {}
                (Ok(a), Ok(b)) => {
                    return viol(
                        "C19/concurrent_keying",
                        "block generators:native threads",
                        format!(
                            "trial {}: a generator keyed from seed {:#x} (kind {}) while {} other threads were keying theirs returned {:x?}; keyed from the same seed alone afterwards it returns {:x?}",
                            trial, s, k % 8, threads - 1, a, b
                        ),
                    );
                }
                (Err(SutFail::Panic(m)), _) | (_, Err(SutFail::Panic(m))) => return sut_panic("native_race", m),
                _ => {}
            }
        }
    }
    st.sig(&[4, threads as u64]);
    RunEnd::Ok
}


/// `rngsim c19race <seed> <trials>`: the native-thread race search on its own (no other worker of this check
/// competes for the cores). Exit 1 + VIOLATION line with a replay file when a generator differs.
pub fn race_main(seed: u64, trials: u64) -> i32 {
    let spec = Spec { prop: "C19".into(), variant: "native_race".into(), aux: vec![trials, 4, crate::prng::h2(seed, 0xC19ACE)], ..Default::default() };
    let mut st = Stats::default();
    match native_race(&spec, &mut st) {
        RunEnd::Violation(v) => {
            let dir = crate::engine::verif_dir().join("replays");
            std::fs::create_dir_all(&dir).ok();
            let path = dir.join(format!("C19-race-{}.json", seed));
            let rf = crate::engine::ReplayFile {
                property: "C19".into(),
                class: v.class.clone(),
                key: v.key.clone(),
                detail: format!("{} [free-running native threads: reproduces in most, not necessarily all, fresh processes]", v.detail),
                verif_seed: seed,
                run_index: 0,
                tier: "quick".into(),
                shrink_steps: 0,
                spec,
                slice: None,
                attempts: 24,
                stderr_full: false,
            };
            std::fs::write(&path, serde_json::to_string_pretty(&rf).unwrap()).ok();
            println!("violation: class={} key={} detail={}", v.class, v.key, v.detail);
            println!("VIOLATION property=C19 replay={}", path.display());
            1
        }
        RunEnd::Discard(s) if s.starts_with("HARNESS_PANIC") => 2,
        _ => {
            println!("C19 (native threads): trials={} threads=4 findings=0", trials);
            0
        }
    }
}
