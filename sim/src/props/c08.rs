//! C08 — no seeding path yields the all-zero state; zero seeds are remapped as documented.

use super::common::*;
use crate::engine::viol;
use crate::gens::{construct, guard, Constructed, DynGen, Kind, SeedSpec, SnapFmt, SutFail, DET_KINDS};
use crate::prng::Prng;
use crate::seams::source::SourceSpec;
use crate::spec::{RunEnd, Scenario, Spec, Stats, Tier};

pub struct C08;

pub fn linear_kinds() -> Vec<Kind> {
    DET_KINDS.iter().copied().filter(|k| k.linear()).collect()
}

/// the documented replacement of the all-zero seed
pub fn zero_replacement(kind: Kind) -> SeedSpec {
    if kind == Kind::XorShift {
        let mut b = Vec::new();
        for _ in 0..4 {
            b.extend_from_slice(&0x0BAD_5EEDu32.to_le_bytes());
        }
        SeedSpec::Bytes(b)
    } else {
        SeedSpec::U64(0)
    }
}

/// Lock-step comparison of two generators under a probe history that is sensitive to the
/// buffer index and the half flag.
pub fn same_stream(a: &mut dyn DynGen, b: &mut dyn DynGen, rounds: usize) -> Result<Result<(), String>, SutFail> {
    guard(|| {
        for i in 0..rounds {
            let (x, y) = (a.next_u32(), b.next_u32());
            if x != y {
                return Err(format!("probe step {} next_u32: {:#x} vs {:#x}", i, x, y));
            }
            let (x, y) = (a.next_u64(), b.next_u64());
            if x != y {
                return Err(format!("probe step {} next_u64: {:#x} vs {:#x}", i, x, y));
            }
            let n = [5usize, 0, 3, 8, 13][i % 5];
            let mut ba = vec![0u8; n];
            let mut bb = vec![0u8; n];
            a.fill_bytes(&mut ba);
            b.fill_bytes(&mut bb);
            if ba != bb {
                return Err(format!("probe step {} fill_bytes({}): {:02x?} vs {:02x?}", i, n, ba, bb));
            }
        }
        Ok(())
    })
}

fn ok_gen(kind: Kind, seed: &SeedSpec) -> Result<(Box<dyn DynGen>, Option<crate::gens::SourceReport>), RunEnd> {
    match construct(kind, seed) {
        Ok(Constructed::Ok(g, r)) => Ok((g, r)),
        Ok(Constructed::Err(_, _)) => Err(RunEnd::Discard("source_error".into())),
        Err(SutFail::Panic(m)) => Err(sut_panic("construct", &m)),
        Err(SutFail::ClockAbort) => Err(RunEnd::Discard("clock_abort".into())),
    }
}

fn all_zero_outputs(g: &dyn DynGen, words: usize) -> Result<bool, SutFail> {
    let mut c = g.boxed_clone();
    guard(move || {
        let mut any = false;
        for _ in 0..(2 * words + 2) {
            if c.next_u64() != 0 {
                any = true;
            }
        }
        !any
    })
}

impl Scenario for C08 {
    fn id(&self) -> &'static str {
        "C08"
    }
    fn level(&self) -> &'static str {
        "exploration"
    }
    fn runs(&self, tier: Tier) -> u64 {
        match tier {
            Tier::Quick => 300_000,
            Tier::Thorough => 1_000_000_000,
        }
    }

    fn generate(&self, rng: &mut Prng, _tier: Tier) -> Spec {
        let kinds = linear_kinds();
        let kind = *rng.pick(&kinds);
        let n = kind.seed_len();
        let mut spec = Spec { prop: "C08".into(), kind: Some(kind), ..Default::default() };
        match rng.below(20) {
            0 | 1 => {
                spec.variant = "from_seed".into();
                spec.seed = Some(SeedSpec::Bytes(vec![0; n]));
            }
            2..=6 => {
                spec.variant = "from_seed".into();
                // sparse: single set bit at any byte position / single non-zero word / first or last word zero
                let mut b = vec![0u8; n];
                match rng.below(4) {
                    0 => b[rng.below(n as u64) as usize] = 1 << rng.below(8),
                    1 => {
                        let w = rng.below((n / 4) as u64) as usize;
                        b[w * 4..w * 4 + 4].copy_from_slice(&rng.u32().max(1).to_le_bytes());
                    }
                    2 => {
                        b = rng.bytes(n);
                        for x in b[..4].iter_mut() {
                            *x = 0;
                        }
                    }
                    _ => {
                        // only the very last byte / word carries information
                        let k = rng.range(1, 4) as usize;
                        for x in b[n - k..].iter_mut() {
                            *x = rng.range(1, 255) as u8;
                        }
                    }
                }
                spec.seed = Some(SeedSpec::Bytes(b));
            }
            7 | 8 => {
                spec.variant = "from_seed".into();
                // dense and structured seeds (all-ones, equal words, cancelling words, ...)
                spec.seed = Some(SeedSpec::Bytes(gen_seed_bytes(rng, n)));
            }
            9..=11 => {
                spec.variant = "seed_from_u64".into();
                spec.seed = Some(SeedSpec::U64(rng.edge_u64()));
            }
            12..=16 => {
                spec.variant = "from_rng".into();
                // leading all-zero blocks: 0..5, occasionally 8 (a bounded redraw loop would give up)
                let k = *rng.pick(&[0usize, 1, 1, 2, 2, 3, 4, 5, 8]);
                let mut prefix = vec![0u8; k * n];
                match rng.below(4) {
                    0 => {
                        // sparse_zero: zero words inside a non-zero block
                        let mut b = vec![0u8; n];
                        let i = rng.below(n as u64) as usize;
                        b[i] = rng.range(1, 255) as u8;
                        prefix.extend_from_slice(&b);
                    }
                    1 => {}
                    2 if rng.chance(1, 6) => prefix.extend_from_slice(&zero_replacement_bytes(kind).unwrap_or_else(|| vec![1; n])),
                    _ => prefix.extend_from_slice(&rng.bytes(n)),
                }
                let mut src = SourceSpec { zero_run: 0, prefix, key: rng.u64() | 1, fault: None };
                if kind == Kind::XorShift && rng.chance(1, 40) {
                    src = gen_long_zero_source(rng);
                }
                spec.aux = vec![k as u64];
                let mut src = src;
                let fallible = rng.chance(1, 2);
                if fallible && src.zero_run == 0 && rng.chance(1, 3) {
                    // the source fails on one of the (re)draws: whatever comes back, it must not be
                    // a generator in the all-zero state
                    src.fault = Some(crate::seams::source::SourceFault { call: rng.range(1, k as u64 + 2) as u32, torn: rng.below(n as u64 + 1) as u32, token: rng.u64() });
                }
                spec.seed = Some(if fallible { SeedSpec::TryFromRng(src) } else { SeedSpec::FromRng(src) });
            }
            _ => {
                spec.variant = "pair".into();
                // two distinct non-zero seeds at Hamming distance 1
                let mut a = if rng.chance(1, 2) { rng.bytes(n) } else { vec![0u8; n] };
                let i = rng.below(n as u64) as usize;
                let bit = 1u8 << rng.below(8);
                let mut b = a.clone();
                b[i] ^= bit;
                if a.iter().all(|x| *x == 0) {
                    // make both non-zero: set another bit in both
                    let j = (i + 1 + rng.below(n as u64 - 1) as usize) % n;
                    a[j] |= 0x10;
                    b[j] |= 0x10;
                }
                if b.iter().all(|x| *x == 0) {
                    b[(i + 1) % n] = 1;
                    a[(i + 1) % n] ^= 1;
                    if a == b || a.iter().all(|x| *x == 0) {
                        a[(i + 2) % n] ^= 4;
                    }
                }
                spec.seed = Some(SeedSpec::Bytes(a));
                spec.seed2 = Some(SeedSpec::Bytes(b));
            }
        }
        spec
    }

    fn execute(&self, spec: &Spec, st: &mut Stats) -> RunEnd {
        let kind = spec.kind.expect("kind");
        let n = kind.seed_len();
        let words = n / 4;
        // a `Default` implementation, should the type have one, is one more way to obtain a generator
        st.count("probe:default_probed");
        if let Ok(Some(d)) = crate::gens::guard(|| crate::gens::default_of(kind)) {
            st.count("probe:default_exists");
            let zero_img = d.snapshot(SnapFmt::Bincode).map(|i| i.iter().all(|b| *b == 0)).unwrap_or(false);
            if zero_img || matches!(all_zero_outputs(d.as_ref(), words), Ok(true)) {
                return viol("C08/all_zero_state", format!("{}:Default", kind.name()), format!("{}::default() is the all-zero state: it emits zeros only", kind.name()));
            }
        }
        let seed = spec.seed.as_ref().expect("seed");
        st.evals += 1;
        let (g, rep) = match ok_gen(kind, seed) {
            Ok(x) => x,
            Err(e) => return e,
        };
        let image = g.snapshot(SnapFmt::Bincode);
        let kname = kind.name();

        // (a) never the all-zero state: exact (state image) and behavioural
        if let Some(img) = &image {
            st.log.bytes(img);
            if img.iter().all(|b| *b == 0) {
                return viol("C08/all_zero_state", format!("{}:{}", kname, spec.variant), format!("{} via {}: state image is all zero", kname, spec.variant));
            }
        }
        match all_zero_outputs(g.as_ref(), words) {
            Ok(true) => {
                return viol("C08/all_zero_state", format!("{}:{}", kname, spec.variant), format!("{} via {}: emits zeros only", kname, spec.variant))
            }
            Ok(false) => {}
            Err(SutFail::Panic(m)) => return sut_panic("outputs", &m),
            Err(_) => return RunEnd::Discard("clock_abort".into()),
        }

        // the bytes the seed route delivers to from_seed, when the harness can know them
        let (delivered, zero_blocks): (Option<Vec<u8>>, usize) = match seed {
            SeedSpec::Bytes(b) => (Some(b.clone()), b.iter().all(|x| *x == 0) as usize),
            SeedSpec::U64(_) => (None, 0),
            SeedSpec::FromRng(s) | SeedSpec::TryFromRng(s) => {
                let mut k = 0;
                while k < 500_000 && s.bytes(k * n, n).iter().all(|x| *x == 0) {
                    k += 1;
                }
                (Some(s.bytes(if kind == Kind::XorShift { k * n } else { 0 }, n)), k)
            }
        };
        let nz_pos = delivered
            .as_ref()
            .map(|b| {
                let nz: Vec<usize> = (0..b.len()).filter(|i| b[*i] != 0).collect();
                match nz.len() {
                    0 => 1000,
                    1 => nz[0] as u64,
                    _ => 2000 + (nz[0] as u64) / 4,
                }
            })
            .unwrap_or(3000);
        st.sig(&[kind.id(), seed.route(), zero_blocks as u64, nz_pos]);

        // (c) source accounting for from_rng / try_from_rng (fault-free sources only: what a failing
        // source must lead to is C09's subject; here only "never the all-zero state" is demanded)
        let faulty = matches!(seed, SeedSpec::TryFromRng(s) if s.fault.is_some());
        if faulty {
            st.count("fault:source_error_during_redraw");
            return RunEnd::Ok;
        }
        if let Some(rep) = &rep {
            let expect_pos = if kind == Kind::XorShift { (zero_blocks + 1) * n } else { n };
            if zero_blocks > 0 {
                st.count("fault:zero_block");
                st.add("fault:zero_blocks_total", zero_blocks as u64);
            }
            if rep.pos != expect_pos {
                return viol(
                    "C08/source_consumption",
                    format!("{}:{}", kname, spec.variant),
                    format!("{}: {} leading zero blocks, source advanced by {} bytes, expected {}", kname, zero_blocks, rep.pos, expect_pos),
                );
            }
        }

        if let Some(d) = &delivered {
            let is_zero = d.iter().all(|x| *x == 0);
            let (mut repl, _) = match ok_gen(kind, &zero_replacement(kind)) {
                Ok(x) => x,
                Err(e) => return e,
            };
            if is_zero {
                // (b) the all-zero seed is replaced exactly as documented
                st.count("probe:zero_seed_remapped");
                if g.eq_dyn(repl.as_ref()) != Some(true) {
                    return viol("C08/zero_seed_replacement", format!("{}:{}", kname, spec.variant), format!("{} from the all-zero seed via {} != documented replacement (by ==)", kname, spec.variant));
                }
                let mut gg = g.boxed_clone();
                match same_stream(gg.as_mut(), repl.as_mut(), 8) {
                    Ok(Ok(())) => {}
                    Ok(Err(m)) => {
                        return viol("C08/zero_seed_replacement", format!("{}:{}", kname, spec.variant), format!("{} zero seed via {} differs from documented replacement: {}", kname, spec.variant, m))
                    }
                    Err(SutFail::Panic(m)) => return sut_panic("probe", &m),
                    Err(_) => return RunEnd::Discard("clock_abort".into()),
                }
            } else {
                // (d) every other seed is used verbatim
                st.count("probe:nonzero_seed");
                if let Some(img) = &image {
                    if img != d {
                        return viol(
                            "C08/not_verbatim",
                            format!("{}:{}", kname, spec.variant),
                            format!("{} via {}: non-zero seed {:02x?} gives state image {:02x?}", kname, spec.variant, d, img),
                        );
                    }
                }
                // a non-zero seed must not be mapped onto the zero-seed replacement
                if g.eq_dyn(repl.as_ref()) == Some(true) && zero_replacement(kind) != SeedSpec::Bytes(d.clone()) {
                    let repl_img = repl.snapshot(SnapFmt::Bincode);
                    if repl_img.as_ref() != Some(d) {
                        return viol("C08/not_verbatim", format!("{}:{}", kname, spec.variant), format!("{}: non-zero seed {:02x?} was mapped to the zero-seed replacement", kname, d));
                    }
                }
                // and it must equal from_seed(delivered bytes) for the source routes (redraw / remap only on zero)
                if rep.is_some() {
                    let (mut h, _) = match ok_gen(kind, &SeedSpec::Bytes(d.clone())) {
                        Ok(x) => x,
                        Err(e) => return e,
                    };
                    if g.eq_dyn(h.as_ref()) != Some(true) {
                        return viol("C08/source_block_not_used", format!("{}:{}", kname, spec.variant), format!("{}: generator from source != from_seed(first non-zero block)", kname));
                    }
                    let mut gg = g.boxed_clone();
                    if let Ok(Err(m)) = same_stream(gg.as_mut(), h.as_mut(), 4) {
                        return viol("C08/source_block_not_used", format!("{}:{}", kname, spec.variant), m);
                    }
                }
            }
        }

        // pairs: distinct non-zero seeds give distinct generators
        if let (Some(SeedSpec::Bytes(a)), Some(s2 @ SeedSpec::Bytes(b))) = (&spec.seed, &spec.seed2) {
            if a != b && !a.iter().all(|x| *x == 0) && !b.iter().all(|x| *x == 0) {
                let (h, _) = match ok_gen(kind, s2) {
                    Ok(x) => x,
                    Err(e) => return e,
                };
                st.count("probe:pair_distinct");
                if g.eq_dyn(h.as_ref()) != Some(false) {
                    return viol("C08/distinct_seeds_equal", format!("{}:pair", kname), format!("{}: seeds {:02x?} and {:02x?} give equal generators", kname, a, b));
                }
                if let (Some(i1), Some(i2)) = (&image, h.snapshot(SnapFmt::Bincode)) {
                    if *i1 == i2 {
                        return viol("C08/distinct_seeds_equal", format!("{}:pair", kname), format!("{}: seeds {:02x?} and {:02x?} give the same state", kname, a, b));
                    }
                }
            }
        }
        RunEnd::Ok
    }

    fn rule(&self) -> String {
        "Each run: one of the 14 linear xoshiro-family types or XorShiftRng and one seeding route: from_seed with the all-zero / sparse (single set bit at every byte position, single non-zero word, leading word zero, only trailing bytes set) / dense seed; seed_from_u64 with edge values (0, -PHI, powers of two, ...) and random values; from_rng / try_from_rng over a SimSource that delivers k=0..5 or 8 leading all-zero blocks (fault zero_block) followed by a sparse, dense or hash-derived block; pairs of non-zero seeds at Hamming distance 1. Oracles: state image (bincode) never all-zero and outputs not all zero; zero seed == documented replacement (by == and by a probe history); source advanced by exactly one block (xoshiro family) resp. k+1 blocks (XorShiftRng); non-zero seeds used verbatim (state image == seed bytes, != replacement, == from_seed(first non-zero block)); distinct seeds => != generators. distinct_nontrivial = distinct (type, route, zero-block count, position of the only non-zero byte | first non-zero word | u64 route) signatures.".into()
    }
    fn assumptions(&self) -> Vec<String> {
        vec![
            "the bincode image of these plain-data generators is their state words in little-endian order (used for the exact 'verbatim' and 'not all-zero' checks; behavioural checks run as well)".into(),
            "SplitMix64 is exempt by the statement".into(),
        ]
    }
    fn components(&self) -> serde_json::Value {
        components_std()
    }
    fn required_probes(&self, _tier: Tier) -> Vec<&'static str> {
        vec!["probe:zero_seed_remapped", "probe:nonzero_seed", "probe:pair_distinct", "fault:zero_block"]
    }
}
