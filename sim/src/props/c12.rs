//! C12 — JitterRng is the Jitterentropy 2.1.0 procedure applied to its timer readings.
//! (The executor is shared with C16, which adds its own per-call read-count oracle.)

use super::common::*;
use crate::clockgen::{count_fired, gen_clock, pick_faults, ClockCfg, ALL_CF, CF};
use crate::engine::viol;
use crate::gens::{build_jitter, guard, DynGen, Kind, SutFail};
use crate::models::jitter::JitterModel;
use crate::models::stream::Out;
use crate::prng::Prng;
use crate::seams::clock::ModelClock;
use crate::spec::{Op, RunEnd, Scenario, Spec, Stats, Tier};
use std::sync::Arc;

pub struct C12;

/// extra clock reads the real code may take beyond the model before the operation is aborted
const SLACK: u64 = 64;
/// a script that keeps the clock stuck for this many readings inside one operation is discarded
const STUCK_CAP: u64 = 60_000;

pub fn est_reads(ops: &[Op], rounds0: u32) -> usize {
    let mut rounds = rounds0 as usize;
    let mut total = 0usize;
    let per = |r: usize| 1 + 3 * (r + 1);
    for op in ops {
        match op {
            Op::U32 | Op::U64 => total += per(rounds),
            Op::Fill(n) => total += per(rounds) * ((*n as usize + 7) / 8),
            Op::TimerStats(_) => total += 4,
            Op::SetRounds(r) if *r > 0 => rounds = *r as usize,
            Op::CloneThen(_) => total += per(rounds),
            Op::CloneFromThen(_) => total += 2 * per(rounds),
            _ => {}
        }
    }
    total
}

pub fn gen_rounds(rng: &mut Prng) -> Option<u8> {
    match rng.below(22) {
        // edges of the u8 round count and of arithmetic on it (doubling, +1, table values)
        20 | 21 => Some(*rng.pick(&[1u8, 2, 63, 64, 65, 85, 86, 127, 128, 129, 152, 153, 170, 171, 196, 197, 254, 255])),
        0 => None, // default 64
        1 => Some(rng.range(65, 255) as u8),
        2 | 3 => Some(rng.range(9, 64) as u8),
        _ => Some(rng.range(1, 8) as u8),
    }
}

pub fn gen_jitter_ops(rng: &mut Prng, max_ops: u64, c16_bias: bool) -> Vec<Op> {
    let n = rng.range(1, max_ops);
    let mix: [u32; 8] = if c16_bias {
        // next_u32 pairs, next_u32 followed by each other output call, clone while a half is pending
        [8, 3, 3, 1, 1, 2, 4, 2]
    } else {
        match rng.below(4) {
            0 => [3, 3, 3, 2, 1, 1, 1, 1],
            1 => [6, 1, 1, 1, 1, 1, 1, 1],
            2 => [1, 1, 6, 1, 1, 0, 1, 0],
            _ => [2, 4, 1, 1, 1, 1, 1, 1],
        }
    };
    let mut ops = Vec::new();
    for _ in 0..n {
        let op = match rng.weighted(&mix) {
            0 => Op::U32,
            1 => Op::U64,
            2 => Op::Fill(match rng.below(if max_ops >= 24 { 7 } else { 6 }) {
                // a request that spans many collections (only where the round count is small)
                6 => rng.range(257, 1100) as u32,
                0 => 0,
                1 | 2 => rng.range(1, 4) as u32,
                3 => rng.range(5, 8) as u32,
                _ => rng.range(0, 40) as u32,
            }),
            3 => Op::TimerStats(rng.chance(1, 2)),
            4 => Op::SetRounds(match if rng.chance(1, 12) { 4 } else { rng.below(4) } {
                // 0 is rejected with the documented panic: the generator must be exactly what it was
                4 => 0,
                0 => rng.range(1, 255) as u8,
                _ => rng.range(1, 6) as u8,
            }),
            5 => Op::Fork,
            k => {
                let inner = Box::new(match rng.below(3) {
                    0 => Op::U64,
                    1 => Op::Fill(rng.range(1, 9) as u32),
                    _ => Op::U32,
                });
                if k == 6 {
                    Op::CloneThen(inner)
                } else {
                    Op::CloneFromThen(inner)
                }
            }
        };
        ops.push(op);
    }
    ops
}

pub fn gen_jitter_spec(rng: &mut Prng, prop: &str, allowed: &[CF], c16_bias: bool) -> Spec {
    let mut spec = Spec { prop: prop.into(), variant: "jitter_history".into(), kind: Some(Kind::Jitter), ..Default::default() };
    spec.rounds = gen_rounds(rng);
    let big_rounds = spec.rounds.map(|r| r > 16).unwrap_or(true);
    spec.ops = gen_jitter_ops(rng, if big_rounds { 6 } else { 24 }, c16_bias);
    if c16_bias && rng.chance(1, 8) {
        // the documented usage: new_with_timer, test_timer, set_rounds, then output - the non-output
        // calls must not leave a half "pending"
        let at = if rng.chance(2, 3) { 0 } else { rng.below(spec.ops.len() as u64 + 1) as usize };
        spec.ops.insert(at, Op::TestTimer);
    }
    let n = (est_reads(&spec.ops, spec.rounds.unwrap_or(64) as u32) * 5 / 4 + 16).min(50_000);
    let faults = pick_faults(rng, allowed);
    let rate = match rng.below(4) {
        0 => 3,
        1 => 10,
        2 => 30,
        _ => 80,
    };
    let max_stretch = rng.range(1, 12) as u32;
    let long_stuck = rng.chance(1, 60);
    let (mut clock, marks) = gen_clock(rng, &ClockCfg { n, faults, rate_per_1000: rate, max_stretch, long_stuck });
    // skew between clones: each fork of the clock sees its own offset
    if rng.chance(1, 3) {
        clock.fork_skews = (0..8).map(|_| if rng.chance(1, 2) { rng.below(1 << 20) } else { rng.u64() }).collect();
    }
    let mut marks = marks;
    // now and then the first collected value is crafted to have a zero half / to be zero
    if rng.chance(1, 25) {
        let r = rng.range(1, 3) as usize;
        let mask = *rng.pick(&[crate::craft::MASK_HI, crate::craft::MASK_HI, crate::craft::MASK_LO, crate::craft::MASK_ALL]);
        // one in five: not a fixed pattern but a RELATION inside the value: low half == high half
        let solved = if rng.chance(1, 5) {
            crate::craft::solve_deltas_xf(rng, 0, r + 1, crate::craft::MASK_LO, 0, crate::craft::fold_halves)
        } else {
            crate::craft::solve_deltas(rng, r + 1, mask)
        };
        if let Some(d) = solved {
            let prefix = crate::craft::crafted_prefix(rng, &d);
            let shift = prefix.len() as u32;
            let last = *prefix.last().unwrap();
            let first = clock.readings.first().copied().unwrap_or(0);
            let mut readings = prefix;
            readings.extend(clock.readings.iter().map(|x| last.wrapping_add(x.wrapping_sub(first)).wrapping_add(211)));
            clock.readings = readings;
            for m in marks.iter_mut() {
                m.0 += shift;
            }
            spec.rounds = Some(r as u8);
            spec.variant = "jitter_history_crafted_value".into();
            // the first operation takes the crafted value in halves
            let first_ops = match rng.below(8) {
                4 => vec![Op::U64, Op::U64],
                5 => vec![Op::Fill(8), Op::U64],
                6 => vec![Op::Fill(16), Op::U32],
                7 => vec![Op::Fill(rng.range(9, 24) as u32)],
                0 => vec![Op::U32, Op::U32],
                1 => vec![Op::U32, Op::U32, Op::U32],
                2 => vec![Op::U32, Op::CloneThen(Box::new(Op::U32)), Op::U32],
                _ => vec![Op::U32, Op::Fill(rng.range(0, 4) as u32), Op::U32],
            };
            spec.ops.retain(|o| !matches!(o, Op::SetRounds(_)));
            spec.ops.splice(0..0, first_ops);
            // sometimes the SECOND collection is crafted as well: it returns the value the first one
            // returned (a fixed point of the collection: "new output == previous output")
            if r >= 2 && rng.chance(1, 2) {
                let v1 = {
                    let mut p = 0u64;
                    for x in &d {
                        p = crate::models::jitter::lfsr_fold(p, *x as u64).rotate_left(7);
                    }
                    crate::models::jitter::stir(p)
                };
                if let Some(d2) = crate::craft::solve_deltas_from(rng, v1, r + 1, crate::craft::MASK_ALL, v1) {
                    // lay the second collection directly behind the first (its own priming reading first)
                    let cl = spec_clock_insert(&mut clock, 1 + 3 * (r + 1), rng, &d2);
                    for m in marks.iter_mut() {
                        if m.0 >= (1 + 3 * (r + 1)) as u32 {
                            m.0 += cl;
                        }
                    }
                    spec.ops.retain(|o| matches!(o, Op::U32 | Op::U64 | Op::Fill(_)));
                    spec.ops.splice(0..0, vec![Op::U64]);
                    spec.variant = "jitter_history_crafted_repeat".into();
                }
            }
        }
    }
    // now and then the first collection contains three deltas whose second difference is +-2^32 over
    // the integers: zero in the 32-bit arithmetic of the stuck test, non-zero in any wider arithmetic
    if spec.variant == "jitter_history" && rng.chance(1, 40) {
        let r = rng.range(3, 6) as usize;
        let w = crate::craft::wrapping_second_difference(rng);
        let mut ds: Vec<i64> = vec![rng.range(500, 90_000) as i64];
        let at = rng.range(1, (r - 1) as u64) as usize;
        for k in 1..=r + 4 {
            if k == at {
                ds.extend_from_slice(&w);
            } else {
                ds.push(rng.range(500, 90_000) as i64 + 7 * k as i64);
            }
        }
        let prefix = crate::craft::crafted_prefix_signed(rng, &ds);
        let shift = prefix.len() as u32;
        let last = *prefix.last().unwrap();
        let first = clock.readings.first().copied().unwrap_or(0);
        let mut readings = prefix;
        readings.extend(clock.readings.iter().map(|x| last.wrapping_add(x.wrapping_sub(first)).wrapping_add(173)));
        clock.readings = readings;
        for m in marks.iter_mut() {
            m.0 += shift;
        }
        spec.rounds = Some(r as u8);
        spec.ops.retain(|o| !matches!(o, Op::SetRounds(_)));
        spec.ops.insert(0, Op::U64);
        spec.variant = "jitter_history_wrapping_second_difference".into();
    }
    // long haul: tens of thousands of collections from ONE instance without a fresh next_u32 in
    // between (counters / epochs kept per instance wrap at 2^8 or 2^16 collections), then the calls
    // that depend on whether a half is pending
    if spec.variant == "jitter_history" && rng.chance(1, 400) {
        // (the 2^8 sizes are cheap, the 2^16 sizes cost about half a second each)
        let n = if rng.chance(1, 2) { *rng.pick(&[254u32, 255, 256, 257]) } else { *rng.pick(&[65_534u32, 65_535, 65_536, 65_537]) };
        let tail = if rng.chance(3, 4) { 0 } else { rng.range(1, 7) as u32 };
        let mut ops = Vec::new();
        match rng.below(5) {
            0 => ops.extend([Op::U32, Op::U32]),
            1 => ops.push(Op::U32),
            2 => ops.push(Op::Fork),
            3 => ops.push(Op::U64),
            _ => {}
        }
        ops.push(Op::Fill(8 * n + tail));
        ops.extend([Op::U32, Op::U64, Op::U32, Op::Fill(3)]);
        spec.ops = ops;
        spec.rounds = Some(1);
        marks.clear();
        clock.readings.truncate(64);
        spec.variant = "jitter_history_long_haul".into();
    }
    // feedback: a timer reading that EQUALS the value the generator returned just before (the pool), or its
    // complement / halves swapped - relations between what the timer says and what the generator holds
    if spec.variant == "jitter_history" && rng.chance(1, 60) {
        let rounds = rng.range(1, 4) as u8;
        clock.fork_skews.clear();
        let probe = std::sync::Arc::new(clock.clone());
        let mut m = JitterModel::new(ModelClock::new(probe));
        m.set_rounds(rounds);
        if let Ok(v) = m.next_u64(STUCK_CAP) {
            let at = m.reads() as usize + rng.below(5) as usize;
            while clock.readings.len() <= at + 8 {
                let i = clock.readings.len() as u64;
                let r = clock.reading(i);
                clock.readings.push(r);
            }
            clock.readings[at] = match rng.below(6) {
                0 => !v,
                1 => v.rotate_left(32),
                _ => v,
            };
            spec.rounds = Some(rounds);
            spec.ops = vec![Op::U64, match rng.below(5) {
                0 => Op::TimerStats(true),
                1 => Op::TimerStats(false),
                2 => Op::U32,
                3 => Op::Fill(rng.range(1, 17) as u32),
                _ => Op::U64,
            }, Op::U64];
            marks.clear();
            spec.variant = "jitter_history_feedback".into();
        }
    }
    // a counter that freezes for a very long time inside one value and then resumes: 65 000 .. a few million
    // readings (2^16 .. 2^20 measurements) without a tick - longer than any retry budget would tolerate
    if spec.variant == "jitter_history" && rng.chance(1, 2500) {
        let len = match rng.below(6) {
            0 | 1 => rng.range(65_000, 70_000),
            2 | 3 => rng.range(196_000, 200_000),
            4 => rng.range(786_000, 1_200_000),
            _ => rng.range(3_145_000, 3_200_000),
        };
        let rounds = rng.range(1, 3) as u8;
        spec.rounds = Some(rounds);
        spec.ops = vec![Op::U64, Op::U64, Op::U32, Op::U64];
        // somewhere inside the second value
        let at = (1 + 3 * (rounds as u64 + 1)) + rng.range(2, 3 * rounds as u64 + 3);
        clock.freeze = Some((at, len));
        clock.readings.truncate(200);
        marks.clear();
        spec.variant = "jitter_history_frozen_clock".into();
    }
    spec.clock = Some(clock);
    spec.aux = encode_marks(&marks);
    // the process's logging configuration: Trace level enabled in one run out of six
    spec.logger = rng.chance(1, 6);
    spec.pre_new = rng.chance(1, 40);
    spec
}

/// insert the readings of one crafted collection at index `at` of the script (shifting the rest in
/// time so that the following deltas stay what they were); returns the number of readings inserted
fn spec_clock_insert(clock: &mut crate::seams::clock::ClockSpec, at: usize, rng: &mut Prng, deltas: &[u32]) -> u32 {
    let at = at.min(clock.readings.len());
    let t0 = if at == 0 { 1000 } else { clock.readings[at - 1] };
    let mut t = t0.wrapping_add(rng.range(50, 500));
    let mut ins = vec![t];
    for d in deltas {
        let prev = t;
        t = t.wrapping_add(*d as u64);
        ins.push(prev.wrapping_add(rng.below(*d as u64)));
        ins.push(t);
        ins.push(t.wrapping_add(rng.below(50)));
    }
    let shift = t.wrapping_add(60).wrapping_sub(t0);
    for x in clock.readings[at..].iter_mut() {
        *x = x.wrapping_add(shift);
    }
    let n = ins.len() as u32;
    clock.readings.splice(at..at, ins);
    n
}

pub struct JitterRunCfg {
    pub prop: &'static str,
    /// C16: additionally check the per-call timer-read clauses
    pub c16: bool,
}

fn hi(v: u64) -> u32 {
    (v >> 32) as u32
}

/// One real-vs-model pair (a clone creates another pair).
struct Pair {
    g: Box<dyn DynGen>,
    m: JitterModel,
}

enum StepErr {
    End(RunEnd),
}

/// candidates the model allows for one output call: (successor model, expected output)
fn candidates(m: &JitterModel, op: &Op, max_extra: u64) -> Result<Vec<(JitterModel, Out)>, ()> {
    let run = |mut mm: JitterModel| -> Result<(JitterModel, Out), ()> {
        // a very long fill legitimately needs many readings: the stuck allowance is on top of them
        let need = match op {
            Op::Fill(n) if *n > 256 => (*n as u64 / 8 + 1) * (1 + 3 * (mm.rounds as u64 + 1)),
            _ => 0,
        };
        let cap = mm.reads() + max_extra + need + mm.clock.spec.freeze_len();
        let out = match op {
            Op::U32 => Out::U32(mm.next_u32(cap).map_err(|_| ())?),
            Op::U64 => Out::U64(mm.next_u64(cap).map_err(|_| ())?),
            Op::Fill(n) => Out::Bytes(mm.fill_bytes(*n as usize, cap).map_err(|_| ())?),
            _ => unreachable!(),
        };
        Ok((mm, out))
    };
    let takes_half_first = match op {
        Op::U32 => true,
        Op::Fill(n) => (1..=4).contains(n),
        _ => false,
    };
    if m.half && m.half_uncertain && takes_half_first {
        // timer_stats ran while a half was pending: the statements are silent. Allowed:
        //  A the pending half of the (stirred) pool as it is now, B the half of the value as it
        //  was collected, C the half is gone and a fresh collection is made.
        let trunc = |v: u32| -> Out {
            match op {
                Op::U32 => Out::U32(v),
                Op::Fill(n) => Out::Bytes(v.to_le_bytes()[..*n as usize].to_vec()),
                _ => unreachable!(),
            }
        };
        let mut out = Vec::new();
        let mut a = m.clone();
        a.half = false;
        a.half_uncertain = false;
        out.push((a.clone(), trunc(hi(m.pool))));
        out.push((a.clone(), trunc(hi(m.half_orig))));
        out.push(run(a)?);
        return Ok(out);
    }
    let mut mm = m.clone();
    mm.half_uncertain = false;
    Ok(vec![run(mm)?])
}

fn output_step(
    p: &mut Pair,
    op: &Op,
    i: usize,
    st: &mut Stats,
    cfg: &JitterRunCfg,
    tag: &str,
) -> Result<(), StepErr> {
    let reads0 = p.m.reads();
    let half0 = p.m.half;
    let uncertain0 = p.m.half && p.m.half_uncertain;
    let rounds = p.m.rounds as u64;
    let cands = match candidates(&p.m, op, STUCK_CAP) {
        Ok(c) => c,
        Err(()) => return Err(StepErr::End(RunEnd::Discard("stuck_script".into()))),
    };
    let max_reads = cands.iter().map(|(m, _)| m.reads()).max().unwrap();
    p.g.jitter_ref().unwrap().set_cap(max_reads + SLACK);
    let g = p.g.as_mut();
    let r = guard(|| match op {
        Op::U32 => Out::U32(g.next_u32()),
        Op::U64 => Out::U64(g.next_u64()),
        Op::Fill(n) => {
            let mut b = vec![0x5Au8; *n as usize];
            g.fill_bytes(&mut b);
            Out::Bytes(b)
        }
        _ => unreachable!(),
    });
    let key = format!("JitterRng:{}{}", tag, match op {
        Op::U32 => "next_u32",
        Op::U64 => "next_u64",
        _ => "fill_bytes",
    });
    let out = match r {
        Ok(o) => o,
        Err(SutFail::Panic(m)) => return Err(StepErr::End(sut_panic("jitter_op", &m))),
        Err(SutFail::ClockAbort) => {
            return Err(StepErr::End(viol(
                &format!("{}/timer_reads", cfg.prop),
                key,
                format!("op #{} {:?}: the procedure needs {} timer readings here, the generator asked for more than {}", i, op, max_reads - reads0, max_reads - reads0 + SLACK),
            )))
        }
    };
    super::c05::log_out(st, &out);
    let reads1 = p.g.jitter_ref().unwrap().reads();
    st.log.u64(reads1);
    let used = reads1 - reads0;

    // C16 clauses, stated on the observed call alone
    if cfg.c16 && !uncertain0 {
        let serves_half = half0 && (matches!(op, Op::U32));
        if serves_half {
            st.count("probe:second_half_no_reads");
            if used != 0 {
                return Err(StepErr::End(viol("C16/second_half_reads_timer", key, format!("op #{}: second of two consecutive next_u32 read the timer {} times", i, used))));
            }
        } else {
            let small_fill_with_half = half0 && matches!(op, Op::Fill(n) if *n <= 4);
            let fill0 = matches!(op, Op::Fill(0));
            if !small_fill_with_half && !fill0 {
                st.count("probe:fresh_collection_checked");
                if used < rounds {
                    return Err(StepErr::End(viol("C16/fresh_collection_too_few_reads", key, format!("op #{} {:?} (half pending: {}): read the timer {} times, fewer than rounds = {}", i, op, half0, used, rounds))));
                }
            }
        }
    }

    if let Out::U32(0) = out {
        st.count("probe:u32_output_zero");
    }
    // a collection that returns the value it started from (the previous output)
    if half0 == false && p.m.n_collections > 0 {
        let prev_pool = p.m.pool;
        let same = match &out {
            Out::U64(v) => *v == prev_pool,
            Out::U32(v) => *v as u64 == (prev_pool & 0xffff_ffff) && cands.iter().any(|(m2, _)| m2.pool == prev_pool),
            _ => false,
        };
        if same {
            st.count("probe:output_repeats_previous");
        }
    }
    for (m2, exp) in cands.iter() {
        if *exp == out && m2.reads() == reads1 {
            p.m = m2.clone();
            if uncertain0 {
                st.count("probe:half_after_timer_stats");
            }
            return Ok(());
        }
    }
    let (m2, exp) = &cands[cands.len() - 1];
    let class = if cands.iter().any(|(_, e)| *e == out) { "timer_reads" } else { "value_mismatch" };
    Err(StepErr::End(viol(
        &format!("{}/{}", cfg.prop, class),
        key,
        format!(
            "op #{} {:?} (rounds {}, half pending {}): got {:?} after {} timer readings; the procedure gives {:?} after {} readings",
            i,
            op,
            rounds,
            half0,
            out,
            used,
            exp,
            m2.reads() - reads0
        ),
    )))
}

pub fn run_jitter_history(spec: &Spec, st: &mut Stats, cfg: &JitterRunCfg) -> RunEnd {
    let clock = Arc::new(spec.clock.clone().expect("clock"));
    st.evals += 1;
    if spec.pre_new {
        #[cfg(feature = "jstd")]
        {
            // (it may return Err - the machine's clock is what it is - but it may not panic)
            let r = crate::gens::guard(|| rand_jitter::JitterRng::new().is_ok());
            if let Err(SutFail::Panic(m)) = &r {
                return sut_panic("JitterRng::new", m);
            }
            st.count(if matches!(r, Ok(true)) { "probe:real_clock_new_before_run" } else { "probe:real_clock_new_failed" });
        }
    }
    let g = build_jitter(clock.clone());
    let m = JitterModel::new(ModelClock::new(clock.clone()));
    let mut p = Pair { g, m };
    if let Some(r) = spec.rounds {
        if r == 0 {
            return RunEnd::Discard("rounds0".into());
        }
        p.g.jitter().unwrap().set_rounds(r);
        p.m.set_rounds(r);
    }
    let mut forks = 0usize;
    let marks = decode_marks(&spec.aux);
    let mut fired_mask = 0u64;
    let res = (|| -> Result<(), StepErr> {
        for (i, op) in spec.ops.iter().enumerate() {
            st.log.u64(op.code());
            let before = p.m.reads();
            match op {
                Op::U32 | Op::U64 | Op::Fill(_) => {
                    let half0 = p.m.half;
                    output_step(&mut p, op, i, st, cfg, "")?;
                    let after = p.m.reads();
                    let mut mask = 0u64;
                    for (idx, k) in &marks {
                        if (*idx as u64) >= before && (*idx as u64) < after {
                            mask |= 1 << k;
                        }
                    }
                    fired_mask |= mask;
                    let rb = match p.m.rounds {
                        1 => 0u64,
                        2..=8 => 1,
                        9..=64 => 2,
                        _ => 3,
                    };
                    st.sig(&[mask, rb, op.code(), half0 as u64]);
                }
                Op::TimerStats(var) => {
                    let expect = p.m.timer_stats(*var);
                    p.g.jitter_ref().unwrap().set_cap(p.m.reads() + SLACK);
                    let g = p.g.as_mut();
                    let v = *var;
                    let r = guard(|| g.jitter().unwrap().timer_stats(v));
                    let got = match r {
                        Ok(x) => x,
                        Err(SutFail::Panic(m)) => return Err(StepErr::End(sut_panic("timer_stats", &m))),
                        Err(SutFail::ClockAbort) => {
                            return Err(StepErr::End(viol(&format!("{}/timer_reads", cfg.prop), "JitterRng:timer_stats", format!("op #{} timer_stats({}) read the timer more than {} times", i, var, if *var { 4 } else { 2 }))))
                        }
                    };
                    st.log.u64(got as u64);
                    let reads = p.g.jitter_ref().unwrap().reads();
                    st.count("probe:timer_stats");
                    if got != expect || reads != p.m.reads() {
                        return Err(StepErr::End(viol(
                            &format!("{}/timer_stats", cfg.prop),
                            "JitterRng:timer_stats",
                            format!("op #{} timer_stats({}): got {} after {} readings, procedure gives {} after {}", i, var, got, reads - before, expect, p.m.reads() - before),
                        )));
                    }
                }
                Op::SetRounds(r) => {
                    if *r == 0 {
                        // the documented panic: the call is rejected, so the procedure continues with the
                        // round count it had (a caller may well survive the panic: catch_unwind, a worker thread)
                        let g = p.g.as_mut();
                        match guard(|| g.jitter().unwrap().set_rounds(0)) {
                            Err(SutFail::Panic(_)) => st.count("probe:set_rounds_0_rejected"),
                            _ => return Err(StepErr::End(RunEnd::Discard("set_rounds_0_did_not_panic".into()))),
                        }
                        continue;
                    }
                    let g = p.g.as_mut();
                    let rr = *r;
                    if let Err(SutFail::Panic(m)) = guard(|| g.jitter().unwrap().set_rounds(rr)) {
                        return Err(StepErr::End(sut_panic("set_rounds", &m)));
                    }
                    p.m.set_rounds(*r);
                }
                Op::Fork => {
                    // continue on a clone; the original is dropped
                    let g = p.g.as_ref();
                    let c = match guard(|| g.boxed_clone()) {
                        Ok(c) => c,
                        Err(SutFail::Panic(m)) => return Err(StepErr::End(sut_panic("clone", &m))),
                        Err(_) => return Err(StepErr::End(RunEnd::Discard("clock_abort".into()))),
                    };
                    let m2 = p.m.fork(forks);
                    forks += 1;
                    st.count("probe:fork");
                    if p.m.half {
                        st.count("probe:clone_with_half_pending");
                    }
                    p = Pair { g: c, m: m2 };
                }
                Op::CloneThen(inner) => {
                    let g = p.g.as_ref();
                    let c = match guard(|| g.boxed_clone()) {
                        Ok(c) => c,
                        Err(SutFail::Panic(m)) => return Err(StepErr::End(sut_panic("clone", &m))),
                        Err(_) => return Err(StepErr::End(RunEnd::Discard("clock_abort".into()))),
                    };
                    let m2 = p.m.fork(forks);
                    forks += 1;
                    if p.m.half {
                        st.count("probe:clone_with_half_pending");
                    }
                    let mut cp = Pair { g: c, m: m2 };
                    match &**inner {
                        o @ (Op::U32 | Op::U64 | Op::Fill(_)) => output_step(&mut cp, o, i, st, cfg, "clone.")?,
                        _ => {}
                    }
                }
                Op::CloneFromThen(inner) => {
                    // destination: a clone that has already been used (it holds a pending half), then
                    // overwritten with Clone::clone_from(&current)
                    let g = p.g.as_ref();
                    let c = match guard(|| g.boxed_clone()) {
                        Ok(c) => c,
                        Err(SutFail::Panic(m)) => return Err(StepErr::End(sut_panic("clone", &m))),
                        Err(_) => return Err(StepErr::End(RunEnd::Discard("clock_abort".into()))),
                    };
                    let m1 = p.m.fork(forks);
                    forks += 1;
                    let mut cp = Pair { g: c, m: m1 };
                    output_step(&mut cp, &Op::U32, i, st, cfg, "clone_from.dst.")?;
                    let src = p.g.as_ref();
                    let dst = cp.g.as_mut();
                    match guard(|| dst.clone_from_dyn(src)) {
                        Ok(_) => {}
                        Err(SutFail::Panic(m)) => return Err(StepErr::End(sut_panic("clone_from", &m))),
                        Err(_) => return Err(StepErr::End(RunEnd::Discard("clock_abort".into()))),
                    }
                    cp.m = p.m.fork(forks);
                    forks += 1;
                    st.count("probe:clone_from");
                    match &**inner {
                        o @ (Op::U32 | Op::U64 | Op::Fill(_)) => output_step(&mut cp, o, i, st, cfg, "clone_from.")?,
                        _ => {}
                    }
                }
                _ => {}
            }
        }
        Ok(())
    })();
    // bookkeeping common to success and failure
    let consumed = p.m.reads();
    count_fired(&marks, consumed, st);
    let _ = fired_mask;
    st.add("probe:collections", p.m.n_collections);
    st.add("probe:measurements", p.m.n_measurements);
    st.add("probe:stuck_delta_zero", p.m.stuck_delta0);
    st.add("probe:stuck_first_difference_zero", p.m.stuck_d2);
    st.add("probe:stuck_second_difference_zero", p.m.stuck_d3);
    st.add("probe:delta_near_2p31", p.m.big_delta);
    st.add("probe:negative_delta", p.m.neg_delta);
    if consumed > 1 {
        let span = clock.reading(consumed - 1).wrapping_sub(clock.reading(0));
        if span < (1 << 62) {
            st.sim_time_ns += span as u128;
        }
    }
    match res {
        Ok(()) => RunEnd::Ok,
        Err(StepErr::End(e)) => e,
    }
}

pub fn jitter_fault_set() -> Vec<CF> {
    ALL_CF.iter().copied().collect()
}

impl Scenario for C12 {
    fn id(&self) -> &'static str {
        "C12"
    }
    fn level(&self) -> &'static str {
        "exploration"
    }
    fn runs(&self, tier: Tier) -> u64 {
        match tier {
            Tier::Quick => 60_000,
            Tier::Thorough => 6_000_000,
        }
    }
    fn generate(&self, rng: &mut Prng, _tier: Tier) -> Spec {
        if rng.chance(1, 40) {
            return gen_nested_spec(rng, "C12", "nested_timer");
        }
        gen_jitter_spec(rng, "C12", &jitter_fault_set(), false)
    }
    fn execute(&self, spec: &Spec, st: &mut Stats) -> RunEnd {
        if spec.variant == "nested_timer" {
            return run_nested_c12(spec, st);
        }
        run_jitter_history(spec, st, &JitterRunCfg { prop: "C12", c16: false })
    }
    fn rule(&self) -> String {
        "Each run: a JitterRng over a scripted clock (SimClock). The script is drawn from a per-run profile (start value, base delta, jitter amplitude) with a per-run random subset of the clock-fault catalogue (stall, const_delta, ramp, backward, jump_pos31, jump_neg31, jump_2p32, zero_reading, coarse100, tiny_var, wrap_u64, big_pause; in one run out of 60 also long_stuck: 3100..9000 consecutive readings at a perfectly constant rate) placed inside collections at a per-run rate, optional skew between clones; in one run out of 25 the first deltas are SOLVED (GF(2) elimination over the model) so that the first collected value has a zero upper half, a zero lower half or is zero; rounds in 1..=255 (default 64 when unset); 1..24 operations from next_u32 / next_u64 / fill_bytes(0..40) / timer_stats(bool) / set_rounds / clone / clone_from into a used generator. After EVERY operation the returned value/bytes and the cumulative number of timer readings are compared with an independent executable model of the documented Jitterentropy 2.1.0 procedure run on the same readings. distinct_nontrivial = distinct (set of fault kinds whose marked reading was consumed inside the operation, rounds bucket, op kind, half flag) signatures. Further variants: (long haul) fill_bytes(8N+t) with N around 2^8 and 2^16 at rounds 1 after a prefix that leaves or clears a half, then the calls that depend on the half flag; set_rounds(0) as an operation: the documented panic is expected and contained, afterwards the model is unchanged; (pre_new) a real-clock JitterRng::new() is made and dropped first in one run out of 40, while the system's calendar date is today, 1970, 2038, 2106, 2262, 2514, 2554 or later (it may fail, it may not panic); (nested_timer) the generator is advanced from INSIDE selected timer readings of another JitterRng's collection on the same thread and must still follow the model; in one run out of ten the real clock (std Instant/SystemTime) jumps by 1 ms .. 1 h per reading while the code under test runs.".into()
    }
    fn assumptions(&self) -> Vec<String> {
        vec![
            "the model follows the crate documentation where the statement is silent: the priming measurement is an ordinary measurement whose verdict is ignored (it folds and, when not stuck, rotates); all 64 bits of the sign-extended 32-bit delta are folded; stuck-test differences use wrapping 32-bit arithmetic".into(),
            "timer_stats while a half is pending: the next next_u32 may return the pending half of the pool as it is now, the half of the value as collected, or a fresh collection".into(),
            "scripts that keep the clock stuck for more than 60000 readings inside one operation are discarded and counted, never reported".into(),
        ]
    }
    fn components(&self) -> serde_json::Value {
        components_std()
    }
    fn required_probes(&self, _tier: Tier) -> Vec<&'static str> {
        vec![
            "probe:stuck_delta_zero",
            "probe:stuck_first_difference_zero",
            "probe:stuck_second_difference_zero",
            "probe:negative_delta",
            "probe:timer_stats",
            "probe:fork",
            "probe:clone_from",
            "probe:u32_output_zero",
            "probe:output_repeats_previous",
            "fault:long_stuck",
            "fault:stall",
            "fault:backward",
            "fault:jump_2p32",
            "fault:wrap_u64",
        ]
    }
}


// ------------------------------------------------------------------------------------------
// Nested use: a JitterRng advanced from INSIDE the timer callback of another JitterRng on the
// same thread. "For every timer" includes a timer that itself draws from a second, scripted
// generator; per-thread scratch state that is busy during the outer collection must not change
// what the inner one does.
// ------------------------------------------------------------------------------------------

struct Unsync<T>(T);
unsafe impl<T> Send for Unsync<T> {}
unsafe impl<T> Sync for Unsync<T> {}

struct NestState {
    inner: Box<dyn DynGen>,
    ops: Vec<Op>,
    next_op: usize,
    results: Vec<(Out, u64)>,
    fail: Option<SutFail>,
    i: u64,
    t: u64,
}

pub fn gen_nested_spec(rng: &mut Prng, prop: &str, variant: &str) -> Spec {
    let mut spec = Spec { prop: prop.into(), variant: variant.into(), kind: Some(Kind::Jitter), ..Default::default() };
    spec.rounds = Some(rng.range(1, 4) as u8);
    let n = rng.range(1, 8);
    spec.ops = (0..n)
        .map(|_| match rng.below(4) {
            0 => Op::U32,
            1 => Op::Fill(rng.range(0, 17) as u32),
            _ => Op::U64,
        })
        .collect();
    spec.clock = Some(gen_plain_clock(rng, 400));
    let stride = rng.range(1, 5);
    // aux: outer rounds, stride, offset (the inner generator is advanced at the outer timer readings i with
    // i % stride == offset), key of the outer timer's own time stamps
    spec.aux = vec![rng.range(1, 3), stride, rng.below(stride), rng.u64()];
    spec
}

/// Runs the inner generator's operations; `nested`: each one from inside a timer reading of an outer
/// JitterRng, else directly. Returns per operation (output, cumulative readings of the inner clock).
pub fn run_nested(spec: &Spec, nested: bool) -> Result<Vec<(Out, u64)>, RunEnd> {
    use std::sync::Mutex;
    let clock = Arc::new(spec.clock.clone().expect("clock"));
    let mut inner = build_jitter(clock);
    inner.jitter().unwrap().set_rounds(spec.rounds.unwrap_or(1).max(1));
    let step = |s: &mut NestState| {
        let op = s.ops[s.next_op].clone();
        s.next_op += 1;
        let r = s.inner.jitter_ref().unwrap().reads();
        s.inner.jitter_ref().unwrap().set_cap(r + 60_000);
        let call = match op {
            Op::U32 => crate::models::stream::Call::U32,
            Op::Fill(n) => crate::models::stream::Call::Fill(n as usize),
            _ => crate::models::stream::Call::U64,
        };
        match super::c05::do_call(s.inner.as_mut(), call) {
            Ok(o) => {
                let reads = s.inner.jitter_ref().unwrap().reads();
                s.results.push((o, reads));
            }
            Err(e) => s.fail = Some(e),
        }
    };
    let mut st0 = NestState { inner, ops: spec.ops.clone(), next_op: 0, results: Vec::new(), fail: None, i: 0, t: spec.aux[3] | 1 };
    if !nested {
        while st0.next_op < st0.ops.len() && st0.fail.is_none() {
            step(&mut st0);
        }
    } else {
        let (stride, offset, key) = (spec.aux[1].max(1), spec.aux[2], spec.aux[3]);
        let shared = Arc::new(Mutex::new(Unsync(st0)));
        let sh = shared.clone();
        let timer = move || -> u64 {
            let mut g = sh.lock().unwrap();
            let s = &mut g.0;
            let i = s.i;
            s.i += 1;
            if i % stride == offset && s.next_op < s.ops.len() && s.fail.is_none() {
                step(s);
            }
            // the outer generator's own time stamps: hashed steps, never constant
            let mut z = (i ^ key).wrapping_mul(0x9e37_79b9_7f4a_7c15);
            z = (z ^ (z >> 30)).wrapping_mul(0xbf58_476d_1ce4_e5b9);
            z ^= z >> 27;
            s.t = s.t.wrapping_add(100 + z % 997);
            s.t
        };
        let mut outer = rand_jitter::JitterRng::new_with_timer(timer);
        outer.set_rounds(spec.aux[0].clamp(1, 8) as u8);
        for _ in 0..64 {
            {
                let g = shared.lock().unwrap();
                if g.0.next_op >= g.0.ops.len() || g.0.fail.is_some() {
                    break;
                }
            }
            use rand_core::RngCore;
            if let Err(e) = guard(|| outer.next_u64()) {
                return Err(match e {
                    SutFail::Panic(m) => sut_panic("outer next_u64", &m),
                    SutFail::ClockAbort => RunEnd::Discard("clock_abort".into()),
                });
            }
        }
        drop(outer);
        let g = match Arc::try_unwrap(shared) {
            Ok(m) => m.into_inner().unwrap(),
            Err(_) => return Err(RunEnd::Discard("HARNESS_PANIC: nested state still shared".into())),
        };
        st0 = g.0;
    }
    match st0.fail {
        Some(SutFail::Panic(m)) => Err(sut_panic("nested op", &m)),
        Some(SutFail::ClockAbort) => Err(RunEnd::Discard("stuck_script".into())),
        None => Ok(st0.results),
    }
}

fn run_nested_c12(spec: &Spec, st: &mut Stats) -> RunEnd {
    st.evals += 1;
    let got = match run_nested(spec, true) {
        Ok(g) => g,
        Err(e) => return e,
    };
    st.count("probe:nested_in_timer_callback");
    let clock = Arc::new(spec.clock.clone().expect("clock"));
    let mut m = JitterModel::new(ModelClock::new(clock));
    m.set_rounds(spec.rounds.unwrap_or(1).max(1));
    for (i, (op, (out, reads))) in spec.ops.iter().zip(got.iter()).enumerate() {
        let cap = m.reads() + STUCK_CAP;
        let exp = match op {
            Op::U32 => m.next_u32(cap).map(Out::U32),
            Op::Fill(n) => {
                if *n == 0 {
                    Ok(Out::Bytes(vec![]))
                } else {
                    m.fill_bytes(*n as usize, cap).map(Out::Bytes)
                }
            }
            _ => m.next_u64(cap).map(Out::U64),
        };
        let exp = match exp {
            Ok(e) => e,
            Err(_) => return RunEnd::Discard("stuck_script".into()),
        };
        if let Op::Fill(0) = op {
            // whether a pending half survives fill_bytes(0) is not stated: stop comparing here
            if m.half {
                return RunEnd::Ok;
            }
        }
        super::c05::log_out(st, out);
        st.sig(&[55, op.code(), spec.aux[1], spec.aux[2], spec.aux[0]]);
        if *out != exp || *reads != m.reads() {
            return viol(
                "C12/nested_value_mismatch",
                "JitterRng:nested",
                format!(
                    "inner generator advanced from inside the timer callback of another JitterRng (same thread): op #{} {:?} returned {:?} after {} readings in total, the procedure gives {:?} after {}",
                    i, op, out, reads, exp, m.reads()
                ),
            );
        }
    }
    RunEnd::Ok
}
