//! C10 — clone() and == are congruences: equal generators have identical futures.

use super::common::*;
use crate::engine::viol;
use crate::gens::{construct_core, guard, restore, restore_core, CoreConstructed, CoreKind, DynCore, DynGen, Kind, SnapFmt, SutFail, CORE_KINDS, DET_KINDS};
use crate::models::stream::{Call, Out};
use crate::prng::Prng;
use crate::spec::{Op, RunEnd, Scenario, Spec, Stats, Tier};
use rand_core::block::BlockRngCore;

pub struct C10;

fn gen_suffix(rng: &mut Prng, kind: Kind, max: u64) -> Vec<Op> {
    let mut ops = gen_output_ops(rng, kind, max);
    if kind.has_jump() {
        for _ in 0..rng.below(3) {
            let at = rng.below(ops.len() as u64 + 1) as usize;
            ops.insert(at, if rng.chance(1, 2) { Op::Jump } else { Op::LongJump });
        }
    }
    ops
}

enum E {
    End(RunEnd),
}
fn sut<T>(r: Result<T, SutFail>, what: &str) -> Result<T, E> {
    match r {
        Ok(x) => Ok(x),
        Err(SutFail::Panic(m)) => Err(E::End(sut_panic(what, &m))),
        Err(SutFail::ClockAbort) => Err(E::End(RunEnd::Discard("clock_abort".into()))),
    }
}

/// `a == b`, with `a != b` evaluated as well: the two operators must be each other's negation
fn eq_checked(a: &dyn DynGen, b: &dyn DynGen, st: &mut Stats) -> Result<Option<bool>, E> {
    let e = sut(guard(|| a.eq_dyn(b)), "eq")?;
    let n = sut(guard(|| a.ne_dyn(b)), "ne")?;
    if let (Some(e), Some(n)) = (e, n) {
        st.count("probe:ne_evaluated");
        if e == n {
            return Err(E::End(viol("C10/ne_inconsistent_with_eq", format!("{}:ne", a.kind().name()), format!("{}: a == b is {} and a != b is {} for the same pair", a.kind().name(), e, n))));
        }
    }
    Ok(e)
}

fn apply(g: &mut dyn DynGen, op: &Op) -> Result<Option<Out>, SutFail> {
    match op {
        Op::U32 => super::c05::do_call(g, Call::U32).map(Some),
        Op::U64 => super::c05::do_call(g, Call::U64).map(Some),
        Op::Fill(n) => super::c05::do_call(g, Call::Fill(*n as usize)).map(Some),
        Op::Jump => guard(|| {
            g.jump();
            None
        }),
        Op::LongJump => guard(|| {
            g.long_jump();
            None
        }),
        _ => Ok(None),
    }
}

/// lock-step: identical results, and still equal after every operation
fn lockstep(a: &mut dyn DynGen, b: &mut dyn DynGen, ops: &[Op], st: &mut Stats, why: &str, class: &str) -> Result<(), E> {
    let kind = a.kind();
    for (i, op) in ops.iter().enumerate() {
        let x = sut(apply(a, op), "op")?;
        let y = sut(apply(b, op), "op")?;
        if let Some(o) = &x {
            super::c05::log_out(st, o);
        }
        if x != y {
            return Err(E::End(viol(class, format!("{}:{}", kind.name(), why), format!("{} ({}): suffix op #{} {:?} returned {:?} on one and {:?} on the other", kind.name(), why, i, op, x, y))));
        }
        if matches!(op, Op::Jump | Op::LongJump) {
            st.count("probe:jump_in_suffix");
        }
        if let Some(false) = sut(guard(|| a.eq_dyn(b)), "eq")? {
            return Err(E::End(viol("C10/equal_generators_become_unequal", format!("{}:{}", kind.name(), why), format!("{} ({}): after identical suffix op #{} {:?} the two generators compare unequal", kind.name(), why, i, op))));
        }
    }
    // drain two blocks natively
    let n = (2 * kind.block_words()).max(4);
    for i in 0..n {
        let (x, y) = sut(guard(|| (a.next_u64(), b.next_u64())), "drain")?;
        if x != y {
            return Err(E::End(viol(class, format!("{}:{}", kind.name(), why), format!("{} ({}): drain word {} differs: {:#x} vs {:#x}", kind.name(), why, i, x, y))));
        }
    }
    Ok(())
}

fn skew_calls(g: &mut dyn DynGen, n: u64, k: u64) -> Result<(), SutFail> {
    for _ in 0..n {
        let c = match k {
            1 => Call::U32,
            2 => Call::U64,
            3 => Call::Fill(8),
            4 => Call::Fill(4),
            5 => Call::Fill(3),
            6 => Call::Fill(0),
            8 => Call::Fill(72),
            9 => Call::Fill(200),
            10 => Call::Fill(1),
            11 => Call::Fill(2),
            12 => Call::Fill(5),
            13 => Call::Fill(6),
            14 => Call::Fill(7),
            _ => Call::Fill(16),
        };
        super::c05::do_call(g, c)?;
    }
    Ok(())
}

/// words of the native stream consumed by a skew (for the Hc128 "different read positions" clause)
fn words32(n: u64, k: u64) -> u64 {
    n * match k {
        1 => 1,
        2 => 2,
        3 => 2,
        4 => 1,
        5 => 1,
        6 => 0,
        8 => 18,
        9 => 50,
        10 | 11 => 1,
        12 | 13 | 14 => 2,
        _ => 4,
    }
}

/// two flips of the SAME bit index in two different words (biased to the top bit): differences that
/// cancel in a sum / XOR style comparison
fn flip_image_twice(img: &mut [u8], pos: u64, word: usize) {
    let nwords = img.len() / word;
    if nwords < 2 {
        return;
    }
    let i = (pos % nwords as u64) as usize;
    let j = (i + 1 + ((pos >> 20) % (nwords as u64 - 1)) as usize) % nwords;
    let bit = if (pos >> 40) % 4 != 0 { word * 8 - 1 } else { ((pos >> 44) % (word as u64 * 8)) as usize };
    for k in [i, j] {
        img[k * word + bit / 8] ^= 1 << (bit % 8);
    }
}

fn flip_image(img: &mut [u8], sel: u64, pos: u64, tail_words: usize, word: usize) {
    // region selector: 0 => anywhere; 1 => in the trailing scalar fields (a, b, c / last words)
    let nbits = img.len() as u64 * 8;
    let bit = if sel % 2 == 1 && img.len() > tail_words * word {
        let start = (img.len() - tail_words * word) as u64 * 8;
        start + pos % (tail_words as u64 * word as u64 * 8)
    } else {
        pos % nbits
    };
    img[(bit / 8) as usize] ^= 1 << (bit % 8);
}

impl Scenario for C10 {
    fn id(&self) -> &'static str {
        "C10"
    }
    fn level(&self) -> &'static str {
        "exploration"
    }
    fn runs(&self, tier: Tier) -> u64 {
        match tier {
            Tier::Quick => 200_000,
            Tier::Thorough => 60_000_000,
        }
    }

    fn generate(&self, rng: &mut Prng, _tier: Tier) -> Spec {
        let mut spec = Spec { prop: "C10".into(), ..Default::default() };
        if rng.chance(1, if _tier == Tier::Quick { 66 } else { 2_000 }) {
            // birthday search: an `==` that has lost seed identity down to k bits (a checksum, a truncated
            // comparison) equates two of m unrelated generators with probability m^2 / 2^(k+1); HC-128 states
            // cannot be manufactured, so unrelated seeds are all there is. aux = [key, m]
            spec.variant = "eq_birthday".into();
            spec.kind = Some(Kind::Hc128);
            spec.pre = *rng.pick(&[0u32, 0, 1, 5, 16, 17]);
            spec.aux = vec![rng.u64(), 4096];
            return spec;
        }
        match rng.below(20) {
            0..=7 => {
                spec.variant = "clone".into();
                let kind = pick_det_kind(rng);
                spec.kind = Some(kind);
                spec.seed = Some(gen_seed(rng, kind));
                spec.pre = rng.below(pre_range(kind) + 1) as u32;
                let mut ops = gen_output_ops(rng, kind, 12);
                ops.push(Op::Fork);
                ops.extend(gen_suffix(rng, kind, 24));
                spec.ops = ops;
                // aux[0] = 1: the clone is made with Clone::clone_from into a generator that is
                // already in use (built from seed2 and advanced by aux[1] next_u32 calls)
                if rng.chance(1, 3) {
                    spec.aux = vec![1, rng.below(2 * kind.block_words() as u64 + 3)];
                    spec.seed2 = Some(gen_seed(rng, kind));
                } else if rng.chance(1, 5) {
                    // aux[0] = 2: the second generator is the first one written to a snapshot and read back (where
                    // the type is serialisable), right after a history that may end in a jump: IF the two compare
                    // equal, their futures must be identical (a field that == ignores and the snapshot drops)
                    spec.aux = vec![2];
                    if kind.has_jump() && rng.chance(1, 2) {
                        let at = spec.ops.iter().position(|o| *o == Op::Fork).unwrap_or(0);
                        spec.ops.insert(at, if rng.chance(1, 2) { Op::Jump } else { Op::LongJump });
                    }
                } else if rng.chance(1, 25) {
                    // a crafted linear-engine state: one state word is zero right after a jump
                    let mut tmp = Spec { ops: vec![], ..Default::default() };
                    if make_zero_word_run(rng, &mut tmp, true) {
                        let k = tmp.kind.unwrap();
                        spec.kind = Some(k);
                        spec.seed = tmp.seed;
                        spec.pre = tmp.pre;
                        let mut ops = tmp.ops; // the jump, if any
                        ops.push(Op::Fork);
                        ops.extend(gen_suffix(rng, k, 12));
                        spec.ops = ops;
                        spec.aux = vec![];
                    }
                }
            }
            8..=11 => {
                spec.variant = "skew".into();
                let kind = pick_det_kind(rng);
                spec.kind = Some(kind);
                spec.seed = Some(gen_seed(rng, kind));
                spec.pre = rng.below(pre_range(kind) + 1) as u32;
                let mut ops = gen_output_ops(rng, kind, 6);
                ops.push(Op::Fork);
                ops.extend(gen_suffix(rng, kind, 12));
                spec.ops = ops;
                // (na, kindA, nb, kindB): advance one side / both sides by different call shapes
                spec.aux = match rng.below(13) {
                    // the same number of BYTES handed out on both sides, a different number of words consumed (a
                    // position derived from a byte count): 4 x fill(1) vs next_u32, 2 x fill(2) vs fill(4), ...
                    11 | 12 => rng
                        .pick(&[
                            [4u64, 10, 1, 1],
                            [2, 11, 1, 4],
                            [8, 10, 1, 2],
                            [4, 5, 3, 4],
                            [2, 12, 10, 10],
                            [4, 13, 3, 3],
                            [8, 14, 7, 3],
                            [2, 11, 4, 10],
                            [1, 4, 4, 10],
                        ])
                        .to_vec(),
                    // the same seed, positions a whole number of 64-block spans apart (1024 words for HC-128):
                    // same buffer index, counters that only matter modulo something agree
                    9 => vec![rng.range(1, 3) * 64 * kind.block_words().max(1) as u64, 1, 0, 1],
                    10 => vec![rng.range(1, 4) * 512, 2, 0, 1],
                    6 => vec![1, 1, 1, 2],                              // one next_u32 vs one next_u64 (same index, half flag differs on 64-bit buffered)
                    7 => vec![3, 1, 2, 2],                              // three next_u32 vs two next_u64
                    8 => vec![1, 1, 1, 3],                              // one next_u32 vs fill(8)
                    0 => vec![1, 1, 0, 1],                              // one side one next_u32 (half a word on 64-bit buffered)
                    1 => vec![rng.range(1, 15), 1, 0, 1],               // by d words inside the block
                    2 => vec![kind.block_words() as u64, 1, 0, 1],      // across one block
                    3 => vec![1, 2, 2, 1],                              // next_u64 vs two next_u32
                    4 => vec![1, 3, 2, 4],                              // fill(8) vs two fill(4)
                    5 if rng.chance(1, 2) => {
                        // one bulk fill vs the same number of words drawn one by one
                        if rng.chance(1, 2) { vec![1, 9, 50, 1] } else { vec![1, 8, 18, 1] }
                    }
                    _ => vec![rng.range(0, 3), rng.range(1, 9), rng.range(0, 3), rng.range(1, 9)],
                };
            }
            12 => {
                // two generators from DIFFERENT (often near-equal) seeds with the same public history
                spec.variant = "two_seeds".into();
                let use_core = rng.chance(1, 4);
                let kind = if use_core {
                    let ck = *rng.pick(&CORE_KINDS);
                    spec.core = Some(ck);
                    ck.rng_kind()
                } else {
                    pick_det_kind(rng)
                };
                spec.kind = Some(kind);
                let s1 = gen_seed(rng, kind);
                let mut s2 = if rng.chance(1, 2) { gen_seed(rng, kind) } else { s1.clone() };
                if s2 == s1 {
                    // near-equal: one flipped bit
                    match &mut s2 {
                        crate::gens::SeedSpec::Bytes(b) => {
                            let i = rng.below(b.len() as u64) as usize;
                            b[i] ^= 1 << rng.below(8);
                        }
                        crate::gens::SeedSpec::U64(x) => *x ^= 1 << rng.below(64),
                        crate::gens::SeedSpec::FromRng(src) | crate::gens::SeedSpec::TryFromRng(src) => {
                            let n = kind.from_rng_len();
                            let mut p = src.bytes(0, n);
                            let i = rng.below(n as u64) as usize;
                            p[i] ^= 1 << rng.below(8);
                            src.prefix = p;
                        }
                    }
                }
                spec.seed = Some(s1);
                spec.seed2 = Some(s2);
                // fresh generators are the interesting case; sometimes after a common history
                spec.pre = if rng.chance(1, 2) { 0 } else { rng.below(pre_range(kind) + 1) as u32 };
                let mut ops = if rng.chance(1, 2) { vec![] } else { gen_output_ops(rng, kind, 6) };
                ops.push(Op::Fork);
                ops.extend(gen_suffix(rng, kind, 10));
                spec.ops = ops;
            }
            13..=15 => {
                spec.variant = "bitflip".into();
                // cores and non-buffered generators with serde
                if rng.chance(1, 2) {
                    spec.core = Some(if rng.chance(1, 2) { CoreKind::IsaacCore } else { CoreKind::Isaac64Core });
                    let k = spec.core.unwrap().rng_kind();
                    spec.seed = Some(gen_seed(rng, k));
                    spec.pre = rng.below(3) as u32;
                } else {
                    let ks: Vec<Kind> = DET_KINDS.iter().copied().filter(|k| !k.buffered()).collect();
                    let kind = *rng.pick(&ks);
                    spec.kind = Some(kind);
                    spec.seed = Some(gen_seed(rng, kind));
                    spec.pre = rng.below(4) as u32;
                    spec.ops = gen_suffix(rng, kind, 8);
                }
                // selector: 0 anywhere, 1 trailing scalars, 2/3 two flips of the same bit in two words
                spec.aux = vec![rng.below(4), rng.u64() >> 4];
            }
            16 | 17 => {
                spec.variant = "core".into();
                let ck = *rng.pick(&CORE_KINDS);
                spec.core = Some(ck);
                spec.seed = Some(gen_seed(rng, ck.rng_kind()));
                spec.pre = rng.below(5) as u32;
                // aux: [blocks in lock-step, advance one side by k generates before comparing]
                spec.aux = vec![rng.range(1, 4), if rng.chance(1, 2) { 0 } else { rng.range(1, 70) }];
                if rng.chance(1, 2) {
                    // clone_from into an unrelated core; same age as the source half of the time
                    spec.aux.push(1);
                    spec.aux.push(if rng.chance(1, 2) { spec.pre as u64 } else { rng.below(5) });
                    spec.seed2 = Some(gen_seed(rng, ck.rng_kind()));
                }
            }
            _ => {
                spec.variant = "isaac_array".into();
                // aux: [width 32|64, index, value, second index (== first: single difference)]
                spec.aux = vec![if rng.chance(1, 2) { 32 } else { 64 }, rng.below(256), rng.u64() | 1, rng.below(256)];
            }
        }
        spec
    }

    fn execute(&self, spec: &Spec, st: &mut Stats) -> RunEnd {
        st.evals += 1;
        let _ = crate::gens::take_placement_disagreement();
        let r = self.execute_inner(spec, st);
        if let Some(d) = crate::gens::take_placement_disagreement() {
            // `==` gave different verdicts for the same two values at different addresses
            let name = spec.core.map(|c| c.name().to_string()).or(spec.kind.map(|k| k.name().to_string())).unwrap_or_default();
            if !matches!(r, RunEnd::Violation(_)) {
                return viol("C10/eq_depends_on_placement", format!("{}:eq", name), format!("{}: {}", name, d));
            }
        }
        r
    }

    fn rule(&self) -> String {
        "Each run is one of: (clone) a C05-style prefix history on one of the 19 deterministic types, so that forks happen mid-block and with a half pending, then clone(), `fork == original` where == exists, then a suffix of next_u32/next_u64/fill_bytes/jump/long_jump applied to both in lock-step (identical results, still equal after every op, 2-block drain); (the clone is made with clone() or, in a third of the runs, with clone_from() into an unrelated generator of the same type that is already in use); (two_seeds) two generators or cores built from DIFFERENT, often near-equal (one flipped bit) seeds through any route, compared fresh or after the same public history: if == says equal their futures must be identical; (skew) the converse: after the fork the two sides are advanced by different call shapes (one next_u32, d words inside the block, one whole block, next_u64 vs two next_u32, fill(8) vs two fill(4), random), then `a == b` is evaluated: if it says equal both must have identical futures under the probe suffix, and two Hc128Rng at different read positions of the same block must compare unequal; (bitflip) one bit - or the same bit (mostly the top bit) of two different words, differences that cancel in a checksum-style comparison - of the stored bincode image of a non-buffered generator or of IsaacCore/Isaac64Core is flipped (anywhere, or in the trailing scalar fields a/b/c) and the image deserialised: if original == flipped their futures must be identical; (core) Hc128Core/IsaacCore/Isaac64Core: clone (made with clone(), or with clone_from() into an unrelated core of the same or another age) == original, identical generate() blocks in lock-step, and cores compared after one side ran k extra generate() calls; (isaac_array) two result buffers differing in exactly one element must be unequal, equal contents equal. distinct_nontrivial = distinct (type, fork buffer index, half flag, pair-construction kind, == verdict) signatures. `==`/`!=` are probed per type (a type that gains PartialEq is compared from then on) and every `==` is also evaluated on clones placed at offsets 0/4/8/12 modulo 16 of one heap block: verdicts that disagree are a violation. Skews include next_u32 vs next_u64 (same index, different half flag). Skew pairs also include byte-matched shapes: both sides hand out the same number of bytes through different numbers of words (4 x fill_bytes(1) vs next_u32, 4 x fill(3) vs 3 x fill(4), ...). (eq_birthday, one run in 66) 4096 Hc128Rng from unrelated seeds, all pairs compared with ==; a pair that compares equal goes through the two_seeds oracle.".into()
    }
    fn assumptions(&self) -> Vec<String> {
        vec![
            "bit flips are applied to cores and non-buffered generators only; BlockRng's own index/half_used fields are dependency code and are never corrupted".into(),
            "'identical futures' is decided by a finite probe suffix plus a two-block drain".into(),
        ]
    }
    fn components(&self) -> serde_json::Value {
        components_std()
    }
    fn required_probes(&self, _tier: Tier) -> Vec<&'static str> {
        vec![
            "probe:clone_mid_block",
            "probe:clone_half_pending",
            "probe:eq_true_after_skew",
            "probe:eq_false_after_skew",
            "probe:hc128_same_block_different_index",
            "probe:jump_in_suffix",
            "probe:bitflip_unequal",
            "probe:array_one_element_differs",
            "probe:core_clone_equal",
            "probe:clone_from_into_used_generator",
            "probe:two_seeds_eq_false",
            "probe:two_seeds_fresh_compared",
            "probe:core_clone_from",
            "probe:bitflip_two_cancelling",
        ]
    }
}

impl C10 {
    fn run_pair(&self, spec: &Spec, st: &mut Stats) -> Result<(), E> {
        let kind = spec.kind.expect("kind");
        let mut a = build(spec, false).map_err(E::End)?;
        let native = if kind.word_bits() == 32 { Call::U32 } else { Call::U64 };
        for _ in 0..spec.pre {
            sut(super::c05::do_call(a.as_mut(), native), "pre")?;
        }
        let fork_at = spec.ops.iter().position(|o| *o == Op::Fork).unwrap_or(spec.ops.len());
        // track consumed words for signatures (model-free: count by call shape on 32/64-bit words)
        let mut consumed: u64 = spec.pre as u64;
        let mut half = false;
        let wb = (kind.word_bits() / 8) as u64;
        for op in &spec.ops[..fork_at] {
            let o = sut(apply(a.as_mut(), op), "prefix")?;
            if let Some(o) = &o {
                super::c05::log_out(st, o);
            }
            match op {
                Op::U32 => {
                    if kind.u32_rule() == crate::gens::U32Rule::LowThenHigh {
                        if half {
                            half = false
                        } else {
                            half = true;
                            consumed += 1
                        }
                    } else {
                        consumed += 1
                    }
                }
                Op::U64 => {
                    consumed += if wb == 4 { 2 } else { 1 };
                    half = false
                }
                Op::Fill(n) => {
                    consumed += (*n as u64 + wb - 1) / wb;
                    if *n > 0 {
                        half = false
                    }
                }
                _ => {}
            }
        }
        let idx = consumed % kind.block_words() as u64;
        let via_clone_from = spec.variant == "clone" && spec.aux.first().copied() == Some(1) && spec.seed2.is_some();
        let mut b = if via_clone_from {
            // destination: an unrelated, already used generator of the same type
            let mut d = build(spec, true).map_err(E::End)?;
            for _ in 0..spec.aux.get(1).copied().unwrap_or(0).min(600) {
                sut(super::c05::do_call(d.as_mut(), Call::U32), "dirty")?;
            }
            let src = a.as_ref();
            let dst = d.as_mut();
            sut(guard(|| dst.clone_from_dyn(src)), "clone_from")?;
            st.count("probe:clone_from_into_used_generator");
            d
        } else if spec.variant == "clone" && spec.aux.first().copied() == Some(2) {
            let restored = match sut(guard(|| a.snapshot(crate::gens::SnapFmt::Bincode)), "serialize")? {
                Some(img) => sut(guard(|| crate::gens::restore(kind, crate::gens::SnapFmt::Bincode, &img)), "deserialize")?.ok(),
                None => None,
            };
            match restored {
                Some(mut r) => {
                    st.count("probe:restored_twin");
                    let suffix: Vec<Op> = if fork_at < spec.ops.len() { spec.ops[fork_at + 1..].to_vec() } else { vec![] };
                    // (whether a restored generator must compare equal is C11's business; here only: IF equal ...)
                    return match eq_checked(r.as_ref(), a.as_ref(), st)? {
                        Some(true) => lockstep(a.as_mut(), r.as_mut(), &suffix, st, "restored", "C10/equal_but_different_future"),
                        _ => Ok(()),
                    };
                }
                None => sut(guard(|| a.boxed_clone()), "clone")?,
            }
        } else {
            sut(guard(|| a.boxed_clone()), "clone")?
        };
        if kind.buffered() && idx != 0 {
            st.count("probe:clone_mid_block");
        }
        if half {
            st.count("probe:clone_half_pending");
        }
        let suffix: Vec<Op> = if fork_at < spec.ops.len() { spec.ops[fork_at + 1..].to_vec() } else { vec![] };
        if spec.variant == "clone" {
            match eq_checked(b.as_ref(), a.as_ref(), st)? {
                Some(false) => {
                    return Err(E::End(viol("C10/clone_not_equal", format!("{}:clone", kind.name()), format!("{}: clone() taken at buffer index {} (half pending {}) compares unequal to its original", kind.name(), idx, half))))
                }
                Some(true) => st.count("probe:clone_eq_checked"),
                None => {}
            }
            st.sig(&[kind.id(), idx, half as u64, 0, 1]);
            return lockstep(a.as_mut(), b.as_mut(), &suffix, st, "clone", "C10/clone_diverges");
        }
        // skew
        let (na, ka, nb, kb) = (
            spec.aux.first().copied().unwrap_or(0),
            spec.aux.get(1).copied().unwrap_or(1),
            spec.aux.get(2).copied().unwrap_or(0),
            spec.aux.get(3).copied().unwrap_or(1),
        );
        sut(skew_calls(a.as_mut(), na.min(70_000), ka), "skew")?;
        sut(skew_calls(b.as_mut(), nb.min(70_000), kb), "skew")?;
        let verdict = eq_checked(a.as_ref(), b.as_ref(), st)?;
        st.sig(&[kind.id(), idx, half as u64, 1 + ka * 8 + kb, verdict.map(|v| v as u64).unwrap_or(2)]);
        match verdict {
            Some(true) => {
                st.count("probe:eq_true_after_skew");
                if kind == Kind::Hc128 {
                    let (wa, wb2) = (words32(na.min(70_000), ka), words32(nb.min(70_000), kb));
                    let same_block = (idx + wa) / 16 == (idx + wb2) / 16 && idx != 0;
                    if wa != wb2 && same_block {
                        return Err(E::End(viol("C10/hc128_different_positions_equal", "Hc128Rng:skew", format!("two Hc128Rng at read positions {} and {} of the same block compare equal", (idx + wa) % 16, (idx + wb2) % 16))));
                    }
                }
                lockstep(a.as_mut(), b.as_mut(), &suffix, st, "skew", "C10/equal_but_different_future")
            }
            Some(false) => {
                st.count("probe:eq_false_after_skew");
                if kind == Kind::Hc128 {
                    let (wa, wb2) = (words32(na.min(70_000), ka), words32(nb.min(70_000), kb));
                    if wa != wb2 && idx != 0 && (idx + wa) / 16 == (idx + wb2) / 16 {
                        st.count("probe:hc128_same_block_different_index");
                    }
                }
                Ok(())
            }
            None => Ok(()),
        }
    }

    fn run_birthday(&self, spec: &Spec, st: &mut Stats) -> Result<(), E> {
        let (key, m) = (spec.aux[0], spec.aux.get(1).copied().unwrap_or(4096) as usize);
        let seed_of = move |i: usize| -> [u8; 32] {
            let mut s = [0u8; 32];
            for (k, ch) in s.chunks_mut(8).enumerate() {
                ch.copy_from_slice(&crate::prng::h2(key ^ (k as u64) << 56, i as u64).to_le_bytes());
            }
            s
        };
        st.add("probe:birthday_pairs_compared", (m * (m - 1) / 2) as u64);
        st.sig(&[Kind::Hc128.id(), 77, spec.pre as u64]);
        let hit = sut(crate::gens::hc128_equal_pair(&seed_of, m, spec.pre), "eq")?;
        if let Some((i, j)) = hit {
            // two unrelated seeds compare equal: the pair goes through the two_seeds oracle (equal => same future)
            let narrowed = Spec {
                prop: "C10".into(),
                variant: "two_seeds".into(),
                kind: Some(Kind::Hc128),
                seed: Some(crate::gens::SeedSpec::Bytes(seed_of(i).to_vec())),
                seed2: Some(crate::gens::SeedSpec::Bytes(seed_of(j).to_vec())),
                pre: spec.pre,
                ops: vec![Op::Fork, Op::U32, Op::U64, Op::Fill(9)],
                generic: spec.generic,
                place: spec.place,
                ..Default::default()
            };
            st.count("probe:birthday_equal_pair_found");
            return match self.run_two_seeds(&narrowed, st) {
                Err(E::End(RunEnd::Violation(mut v))) => {
                    v.detail = format!("[pair {} / {} of {} unrelated seeds] {}", i, j, m, v.detail);
                    v.narrowed = Some(Box::new(narrowed));
                    Err(E::End(RunEnd::Violation(v)))
                }
                other => other,
            };
        }
        Ok(())
    }

    fn run_two_seeds(&self, spec: &Spec, st: &mut Stats) -> Result<(), E> {
        let kind = spec.kind.expect("kind");
        if let Some(ck) = spec.core {
            let mk = |seed| -> Result<Box<dyn DynCore>, E> {
                match sut(construct_core(ck, seed), "construct")? {
                    CoreConstructed::Ok(c, _) => Ok(c),
                    CoreConstructed::Err(..) => Err(E::End(RunEnd::Discard("source_error".into()))),
                }
            };
            let mut a = mk(spec.seed.as_ref().unwrap())?;
            let mut b = mk(spec.seed2.as_ref().unwrap())?;
            for _ in 0..spec.pre.min(4) {
                sut(guard(|| (a.generate(), b.generate())), "generate")?;
            }
            let eq = sut(guard(|| a.eq_dyn(b.as_ref())), "eq")?;
            st.sig(&[100 + ck as u64, spec.pre.min(4) as u64, 0, 6, eq as u64]);
            st.count(if eq { "probe:two_seeds_eq_true" } else { "probe:two_seeds_eq_false" });
            if eq {
                for blk in 0..2 {
                    let (x, y) = sut(guard(|| (a.generate(), b.generate())), "generate")?;
                    if x != y {
                        return Err(E::End(viol("C10/equal_but_different_future", format!("{}:two_seeds", ck.name()), format!("{}: two cores built from different seeds compare equal after {} generate() calls, but block {} of their outputs differs", ck.name(), spec.pre.min(4), blk))));
                    }
                }
            }
            return Ok(());
        }
        let mut a = build(spec, false).map_err(E::End)?;
        let mut b = build(spec, true).map_err(E::End)?;
        let native = if kind.word_bits() == 32 { Call::U32 } else { Call::U64 };
        for _ in 0..spec.pre {
            sut(super::c05::do_call(a.as_mut(), native), "pre")?;
            sut(super::c05::do_call(b.as_mut(), native), "pre")?;
        }
        let fork_at = spec.ops.iter().position(|o| *o == Op::Fork).unwrap_or(spec.ops.len());
        for op in &spec.ops[..fork_at] {
            sut(apply(a.as_mut(), op), "prefix")?;
            sut(apply(b.as_mut(), op), "prefix")?;
        }
        let suffix: Vec<Op> = if fork_at < spec.ops.len() { spec.ops[fork_at + 1..].to_vec() } else { vec![] };
        let verdict = eq_checked(a.as_ref(), b.as_ref(), st)?;
        let fresh = spec.pre == 0 && fork_at == 0;
        st.sig(&[kind.id(), fresh as u64, 0, 6, verdict.map(|v| v as u64).unwrap_or(2)]);
        match verdict {
            Some(true) => {
                st.count("probe:two_seeds_eq_true");
                lockstep(a.as_mut(), b.as_mut(), &suffix, st, "two_seeds", "C10/equal_but_different_future")
            }
            Some(false) => {
                st.count("probe:two_seeds_eq_false");
                if fresh {
                    st.count("probe:two_seeds_fresh_compared");
                }
                Ok(())
            }
            None => Ok(()),
        }
    }

    fn run_bitflip(&self, spec: &Spec, st: &mut Stats) -> Result<(), E> {
        let sel = spec.aux.first().copied().unwrap_or(0);
        let pos = spec.aux.get(1).copied().unwrap_or(0);
        if let Some(ck) = spec.core {
            let mut a = match sut(construct_core(ck, spec.seed.as_ref().unwrap()), "construct")? {
                CoreConstructed::Ok(c, _) => c,
                CoreConstructed::Err(..) => return Err(E::End(RunEnd::Discard("source_error".into()))),
            };
            for _ in 0..spec.pre {
                sut(guard(|| a.generate()), "generate")?;
            }
            let mut img = match a.snapshot(SnapFmt::Bincode) {
                Some(i) => i,
                None => return Err(E::End(RunEnd::Discard("no_snapshot".into()))),
            };
            let word = if ck == CoreKind::IsaacCore { 4 } else { 8 };
            if sel >= 2 {
                flip_image_twice(&mut img, pos, word);
                st.count("probe:bitflip_two_cancelling");
            } else {
                flip_image(&mut img, sel, pos, 3, word);
            }
            let mut b = match restore_core(ck, SnapFmt::Bincode, &img) {
                Ok(b) => b,
                Err(_) => return Err(E::End(RunEnd::Discard("flipped_image_rejected".into()))),
            };
            let eq = sut(guard(|| a.eq_dyn(b.as_ref())), "eq")?;
            st.sig(&[100 + ck as u64, sel % 2, 0, 3, eq as u64]);
            if !eq {
                st.count("probe:bitflip_unequal");
                return Ok(());
            }
            st.count("probe:bitflip_equal");
            for blk in 0..3 {
                let (x, y) = sut(guard(|| (a.generate(), b.generate())), "generate")?;
                if x != y {
                    return Err(E::End(viol("C10/equal_but_different_future", format!("{}:bitflip", ck.name()), format!("{}: original == copy with one flipped state bit (selector {}, bit {}), but block {} of their outputs differs", ck.name(), sel % 2, pos, blk))));
                }
            }
            return Ok(());
        }
        let kind = spec.kind.expect("kind");
        let mut a = build(spec, false).map_err(E::End)?;
        let native = if kind.word_bits() == 32 { Call::U32 } else { Call::U64 };
        for _ in 0..spec.pre {
            sut(super::c05::do_call(a.as_mut(), native), "pre")?;
        }
        let mut img = match a.snapshot(SnapFmt::Bincode) {
            Some(i) => i,
            None => return Err(E::End(RunEnd::Discard("no_snapshot".into()))),
        };
        let word = (kind.word_bits() / 8) as usize;
        if sel >= 2 {
            flip_image_twice(&mut img, pos, word);
            st.count("probe:bitflip_two_cancelling");
        } else {
            flip_image(&mut img, sel, pos, 1, word);
        }
        let mut b = match restore(kind, SnapFmt::Bincode, &img) {
            Ok(b) => b,
            Err(_) => return Err(E::End(RunEnd::Discard("flipped_image_rejected".into()))),
        };
        let eq = sut(guard(|| a.eq_dyn(b.as_ref())), "eq")?;
        st.sig(&[kind.id(), sel % 2, 0, 3, eq.map(|v| v as u64).unwrap_or(2)]);
        match eq {
            Some(true) => {
                st.count("probe:bitflip_equal");
                lockstep(a.as_mut(), b.as_mut(), &spec.ops, st, "bitflip", "C10/equal_but_different_future")
            }
            _ => {
                st.count("probe:bitflip_unequal");
                Ok(())
            }
        }
    }

    fn run_core(&self, spec: &Spec, st: &mut Stats) -> Result<(), E> {
        let ck = spec.core.expect("core");
        let mut a: Box<dyn DynCore> = match sut(construct_core(ck, spec.seed.as_ref().unwrap()), "construct")? {
            CoreConstructed::Ok(c, _) => c,
            CoreConstructed::Err(..) => return Err(E::End(RunEnd::Discard("source_error".into()))),
        };
        for _ in 0..spec.pre {
            sut(guard(|| a.generate()), "generate")?;
        }
        // aux[2] = 1: the clone is made with Clone::clone_from into an unrelated core (other seed)
        // that has generated aux[3] blocks (often the same number as the source)
        let mut b = if spec.aux.get(2).copied() == Some(1) && spec.seed2.is_some() {
            let mut d: Box<dyn DynCore> = match sut(construct_core(ck, spec.seed2.as_ref().unwrap()), "construct")? {
                CoreConstructed::Ok(c, _) => c,
                CoreConstructed::Err(..) => return Err(E::End(RunEnd::Discard("source_error".into()))),
            };
            for _ in 0..spec.aux.get(3).copied().unwrap_or(0).min(8) {
                sut(guard(|| d.generate()), "generate")?;
            }
            let src = a.as_ref();
            let dst = d.as_mut();
            sut(guard(|| dst.clone_from_dyn(src)), "clone_from")?;
            st.count("probe:core_clone_from");
            d
        } else {
            sut(guard(|| a.boxed_clone()), "clone")?
        };
        if !sut(guard(|| a.eq_dyn(b.as_ref())), "eq")? {
            return Err(E::End(viol("C10/clone_not_equal", format!("{}:clone", ck.name()), format!("{}: clone ({}) after {} generate() calls compares unequal to its original", ck.name(), if spec.aux.get(2).copied() == Some(1) { "made with clone_from into an unrelated core" } else { "made with clone()" }, spec.pre))));
        }
        st.count("probe:core_clone_equal");
        let blocks = spec.aux.first().copied().unwrap_or(1).min(8);
        let extra = spec.aux.get(1).copied().unwrap_or(0).min(200);
        st.sig(&[100 + ck as u64, spec.pre as u64, 0, 4, (extra > 0) as u64]);
        if extra > 0 {
            for _ in 0..extra {
                sut(guard(|| b.generate()), "generate")?;
            }
            let eq = sut(guard(|| a.eq_dyn(b.as_ref())), "eq")?;
            if !eq {
                st.count("probe:core_advanced_unequal");
                return Ok(());
            }
        }
        for blk in 0..blocks {
            let (x, y) = sut(guard(|| (a.generate(), b.generate())), "generate")?;
            st.log.u64(x[0]);
            if x != y {
                return Err(E::End(viol(
                    if extra > 0 { "C10/equal_but_different_future" } else { "C10/clone_diverges" },
                    format!("{}:core", ck.name()),
                    format!("{}: equal cores produce different block {} (one side ran {} extra generate() calls before the comparison)", ck.name(), blk, extra),
                )));
            }
            if !sut(guard(|| a.eq_dyn(b.as_ref())), "eq")? {
                return Err(E::End(viol("C10/equal_generators_become_unequal", format!("{}:core", ck.name()), format!("{}: cores unequal after identical generate() #{}", ck.name(), blk))));
            }
        }
        Ok(())
    }

    fn run_array(&self, spec: &Spec, st: &mut Stats) -> Result<(), E> {
        let width = spec.aux.first().copied().unwrap_or(32);
        let i = (spec.aux.get(1).copied().unwrap_or(0) % 256) as usize;
        let v = spec.aux.get(2).copied().unwrap_or(1) | 1;
        let j = (spec.aux.get(3).copied().unwrap_or(0) % 256) as usize;
        fn check<R: Default + AsMut<[T]> + PartialEq, T: Copy + From<u32> + core::ops::BitXor<Output = T>>(i: usize, j: usize, v: T) -> (bool, bool, bool) {
            let mut a = R::default();
            let mut b = R::default();
            // same non-default contents
            for k in 0..256 {
                a.as_mut()[k] = T::from((k as u32).wrapping_mul(2654435761u32).wrapping_add(k as u32));
                b.as_mut()[k] = T::from((k as u32).wrapping_mul(2654435761u32).wrapping_add(k as u32));
            }
            let same = a == b;
            b.as_mut()[i] = b.as_mut()[i] ^ v;
            let one_diff = a == b;
            b.as_mut()[j] = b.as_mut()[j] ^ v;
            let back_or_two = a == b;
            (same, one_diff, back_or_two)
        }
        let r = if width == 32 {
            sut(guard(|| check::<<rand_isaac::isaac::IsaacCore as BlockRngCore>::Results, u32>(i, j, v as u32 | 1)), "array_eq")?
        } else {
            sut(guard(|| check::<<rand_isaac::isaac64::Isaac64Core as BlockRngCore>::Results, u64>(i, j, v)), "array_eq")?
        };
        st.sig(&[200 + width, (i / 16) as u64, 0, 5, r.1 as u64]);
        st.count("probe:array_one_element_differs");
        let name = if width == 32 { "IsaacArray<u32>" } else { "IsaacArray<u64>" };
        if !r.0 {
            return Err(E::End(viol("C10/array_equal_contents_unequal", format!("{}:eq", name), format!("{}: buffers with identical contents compare unequal", name))));
        }
        if r.1 {
            return Err(E::End(viol("C10/array_differs_but_equal", format!("{}:eq", name), format!("{}: buffers differing only in element {} compare equal", name, i))));
        }
        if (i == j) != r.2 {
            return Err(E::End(viol("C10/array_differs_but_equal", format!("{}:eq", name), format!("{}: after toggling elements {} and {}: == says {}", name, i, j, r.2))));
        }
        Ok(())
    }
}

impl C10 {
    fn execute_inner(&self, spec: &Spec, st: &mut Stats) -> RunEnd {
        let r = match spec.variant.as_str() {
            "clone" | "skew" => self.run_pair(spec, st),
            "two_seeds" => self.run_two_seeds(spec, st),
            "bitflip" => self.run_bitflip(spec, st),
            "core" => self.run_core(spec, st),
            "isaac_array" => self.run_array(spec, st),
            "eq_birthday" => self.run_birthday(spec, st),
            _ => Ok(()),
        };
        match r {
            Ok(()) => RunEnd::Ok,
            Err(E::End(e)) => e,
        }
    }
}
