//! Reference model for C05: every call is a fixed little-endian projection of the next whole
//! word(s) of ONE forward-only native word stream `W` (the stream native-width calls alone
//! return). Transcribed from the property statement, not from the code under test.
//!
//! Where the statement is silent (`fill_bytes(0)` on Isaac64Rng while a half is pending) the
//! model is deliberately nondeterministic: it keeps every allowed continuation until a later
//! call disambiguates.

use crate::gens::{Kind, U32Rule};

pub trait Words {
    /// i-th word of the native stream (0-based, counted from construction)
    fn word(&mut self, i: usize) -> u64;
}

#[derive(Clone, Copy, Debug, PartialEq, Eq)]
pub struct St {
    /// index of the next unconsumed word of W
    pub c: usize,
    /// LowThenHigh kinds: the high half of W[c-1] is pending
    pub half: bool,
}

#[derive(Clone, Debug, PartialEq, Eq)]
pub enum Out {
    U32(u32),
    U64(u64),
    Bytes(Vec<u8>),
}

#[derive(Clone, Copy, Debug, PartialEq, Eq)]
pub enum Call {
    U32,
    U64,
    Fill(usize),
}

const PHI: u64 = 0x9e37_79b9_7f4a_7c15;

/// dsiutils "Mix4" 32-bit output of SplitMix64 on counter value z.
fn splitmix_u32(z: u64) -> u32 {
    let z = (z ^ (z >> 33)).wrapping_mul(0x62A9_D9ED_7997_05F5);
    let z = (z ^ (z >> 28)).wrapping_mul(0xCB24_D0A5_C88C_35B3);
    (z >> 32) as u32
}

pub struct StreamModel {
    pub kind: Kind,
    pub states: Vec<St>,
    /// SplitMix64 only: the initial counter (state word of the seed)
    pub splitmix_x: Option<u64>,
}

impl StreamModel {
    pub fn new(kind: Kind, splitmix_x: Option<u64>) -> StreamModel {
        StreamModel { kind, states: vec![St { c: 0, half: false }], splitmix_x }
    }

    fn prim_u64(&self, st: &mut St, w: &mut dyn Words) -> u64 {
        if self.kind.word_bits() == 32 {
            let lo = w.word(st.c);
            let hi = w.word(st.c + 1);
            st.c += 2;
            (hi << 32) | (lo & 0xffff_ffff)
        } else {
            let v = w.word(st.c);
            st.c += 1;
            st.half = false;
            v
        }
    }

    fn prim_u32(&self, st: &mut St, w: &mut dyn Words) -> u32 {
        match self.kind.u32_rule() {
            U32Rule::Native32 => {
                let v = w.word(st.c) as u32;
                st.c += 1;
                v
            }
            U32Rule::Upper => {
                let v = (w.word(st.c) >> 32) as u32;
                st.c += 1;
                v
            }
            U32Rule::Lower => {
                let v = w.word(st.c) as u32;
                st.c += 1;
                v
            }
            U32Rule::SplitMix => {
                let x = self.splitmix_x.expect("splitmix state");
                let z = x.wrapping_add(PHI.wrapping_mul(st.c as u64 + 1));
                st.c += 1;
                splitmix_u32(z)
            }
            U32Rule::LowThenHigh => {
                if st.half {
                    st.half = false;
                    (w.word(st.c - 1) >> 32) as u32
                } else {
                    let v = w.word(st.c) as u32;
                    st.c += 1;
                    st.half = true;
                    v
                }
            }
        }
    }

    /// expected output and successor states for one starting state (usually exactly one)
    fn step(&self, st0: St, call: Call, w: &mut dyn Words) -> Vec<(Out, St)> {
        let mut st = st0;
        match call {
            Call::U32 => {
                let v = self.prim_u32(&mut st, w);
                vec![(Out::U32(v), st)]
            }
            Call::U64 => {
                let v = self.prim_u64(&mut st, w);
                vec![(Out::U64(v), st)]
            }
            Call::Fill(n) => {
                if self.kind.buffered() {
                    // first n LE bytes of the next ceil(n / wordbytes) buffered words
                    let wb = (self.kind.word_bits() / 8) as usize;
                    let words = (n + wb - 1) / wb;
                    let mut bytes = Vec::with_capacity(words * wb);
                    for i in 0..words {
                        let v = w.word(st.c + i);
                        if wb == 4 {
                            bytes.extend_from_slice(&(v as u32).to_le_bytes());
                        } else {
                            bytes.extend_from_slice(&v.to_le_bytes());
                        }
                    }
                    bytes.truncate(n);
                    st.c += words;
                    if st.half && n == 0 {
                        // statement is silent: the pending half may be kept or dropped
                        let mut dropped = st;
                        dropped.half = false;
                        return vec![(Out::Bytes(bytes.clone()), st), (Out::Bytes(bytes), dropped)];
                    }
                    st.half = false;
                    vec![(Out::Bytes(bytes), st)]
                } else {
                    // n/8 next_u64, then one next_u64 (tail 5..7) or one next_u32 (tail 1..4)
                    let mut bytes = Vec::with_capacity(n + 8);
                    for _ in 0..n / 8 {
                        let v = self.prim_u64(&mut st, w);
                        bytes.extend_from_slice(&v.to_le_bytes());
                    }
                    let tail = n % 8;
                    if tail > 4 {
                        let v = self.prim_u64(&mut st, w);
                        bytes.extend_from_slice(&v.to_le_bytes()[..tail]);
                    } else if tail > 0 {
                        let v = self.prim_u32(&mut st, w);
                        bytes.extend_from_slice(&v.to_le_bytes()[..tail]);
                    }
                    vec![(Out::Bytes(bytes), st)]
                }
            }
        }
    }

    /// Advance the model by one observed call. Returns Err(expected outputs) when no allowed
    /// state explains the observation.
    pub fn observe(&mut self, call: Call, actual: &Out, w: &mut dyn Words) -> Result<(), Vec<Out>> {
        let mut next = Vec::new();
        let mut expected = Vec::new();
        for st in self.states.clone() {
            for (out, st2) in self.step(st, call, w) {
                if &out == actual {
                    if !next.contains(&st2) {
                        next.push(st2);
                    }
                } else {
                    expected.push(out);
                }
            }
        }
        if next.is_empty() {
            return Err(expected);
        }
        self.states = next;
        Ok(())
    }

    /// consumed-word cursor of the first allowed state (for signatures / probes)
    pub fn cur(&self) -> St {
        self.states[0]
    }
}
