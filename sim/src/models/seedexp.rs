//! Documented seed expansions, written out in the harness (C09):
//! rand_core's PCG32 expansion used by the default `seed_from_u64`, and ISAAC / ISAAC-64
//! `randinit` (state construction only).

/// rand_core 0.9 `SeedableRng::seed_from_u64` default: PCG32 (XSH RR 64/32) stream, state
/// advanced before each output, outputs copied little-endian into the seed.
pub fn pcg32_expand(mut state: u64, n: usize) -> Vec<u8> {
    const MUL: u64 = 6364136223846793005;
    const INC: u64 = 11634580027462260723;
    let mut out = Vec::with_capacity(n + 4);
    while out.len() < n {
        state = state.wrapping_mul(MUL).wrapping_add(INC);
        let xorshifted = (((state >> 18) ^ state) >> 27) as u32;
        let rot = (state >> 59) as u32;
        let x = xorshifted.rotate_right(rot);
        out.extend_from_slice(&x.to_le_bytes());
    }
    out.truncate(n);
    out
}

fn mix32(s: &mut [u32; 8]) {
    let [a, b, c, d, e, f, g, h] = s;
    *a ^= *b << 11; *d = d.wrapping_add(*a); *b = b.wrapping_add(*c);
    *b ^= *c >> 2;  *e = e.wrapping_add(*b); *c = c.wrapping_add(*d);
    *c ^= *d << 8;  *f = f.wrapping_add(*c); *d = d.wrapping_add(*e);
    *d ^= *e >> 16; *g = g.wrapping_add(*d); *e = e.wrapping_add(*f);
    *e ^= *f << 10; *h = h.wrapping_add(*e); *f = f.wrapping_add(*g);
    *f ^= *g >> 4;  *a = a.wrapping_add(*f); *g = g.wrapping_add(*h);
    *g ^= *h << 8;  *b = b.wrapping_add(*g); *h = h.wrapping_add(*a);
    *h ^= *a >> 9;  *c = c.wrapping_add(*h); *a = a.wrapping_add(*b);
}

/// Jenkins' randinit for ISAAC (32 bit): golden ratio mixed four times, then `passes` passes over
/// the 256 words in chunks of 8 (add chunk, mix, store). Returns the state image
/// (mem[256], a, b, c) as little-endian bytes; a = b = c = 0 after initialisation.
pub fn isaac_randinit(key: &[u32; 256], passes: u32) -> Vec<u8> {
    let mut s = [0x9e37_79b9u32; 8];
    for _ in 0..4 {
        mix32(&mut s);
    }
    let mut mem = *key;
    for _ in 0..passes {
        for i in (0..256).step_by(8) {
            for k in 0..8 {
                s[k] = s[k].wrapping_add(mem[i + k]);
            }
            mix32(&mut s);
            mem[i..i + 8].copy_from_slice(&s);
        }
    }
    let mut out = Vec::with_capacity(1036);
    for w in mem.iter() {
        out.extend_from_slice(&w.to_le_bytes());
    }
    out.extend_from_slice(&[0u8; 12]);
    out
}

fn mix64(s: &mut [u64; 8]) {
    let [a, b, c, d, e, f, g, h] = s;
    *a = a.wrapping_sub(*e); *f ^= *h >> 9;  *h = h.wrapping_add(*a);
    *b = b.wrapping_sub(*f); *g ^= *a << 9;  *a = a.wrapping_add(*b);
    *c = c.wrapping_sub(*g); *h ^= *b >> 23; *b = b.wrapping_add(*c);
    *d = d.wrapping_sub(*h); *a ^= *c << 15; *c = c.wrapping_add(*d);
    *e = e.wrapping_sub(*a); *b ^= *d >> 14; *d = d.wrapping_add(*e);
    *f = f.wrapping_sub(*b); *c ^= *e << 20; *e = e.wrapping_add(*f);
    *g = g.wrapping_sub(*c); *d ^= *f >> 17; *f = f.wrapping_add(*g);
    *h = h.wrapping_sub(*d); *e ^= *g << 14; *g = g.wrapping_add(*h);
}

/// ISAAC-64 randinit; image = (mem[256] u64, a, b, c) little-endian.
pub fn isaac64_randinit(key: &[u64; 256], passes: u32) -> Vec<u8> {
    let mut s = [0x9e37_79b9_7f4a_7c13u64; 8];
    for _ in 0..4 {
        mix64(&mut s);
    }
    let mut mem = *key;
    for _ in 0..passes {
        for i in (0..256).step_by(8) {
            for k in 0..8 {
                s[k] = s[k].wrapping_add(mem[i + k]);
            }
            mix64(&mut s);
            mem[i..i + 8].copy_from_slice(&s);
        }
    }
    let mut out = Vec::with_capacity(2072);
    for w in mem.iter() {
        out.extend_from_slice(&w.to_le_bytes());
    }
    out.extend_from_slice(&[0u8; 24]);
    out
}
