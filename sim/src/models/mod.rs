pub mod stream;
pub mod jitter;
