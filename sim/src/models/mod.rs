pub mod stream;
