pub mod stream;
pub mod jitter;
pub mod seedexp;
