//! Independent executable model of the Jitterentropy 2.1.0 collection procedure as the crate
//! documents it (C12 / C16), and of the `test_timer` failure predicates (C13).
//! Written from the property statements and the crate documentation; shares no code with
//! rand_jitter.

use crate::seams::clock::ModelClock;

#[derive(Clone)]
pub struct JitterModel {
    pub pool: u64,
    pub rounds: u32,
    /// high half of `pool` is still to be handed out by the next next_u32
    pub half: bool,
    pub clock: ModelClock,
    /// timer_stats ran while a half was pending: the statements do not say what the next
    /// next_u32 returns; `half_orig` remembers the value the half was taken from
    pub half_uncertain: bool,
    pub half_orig: u64,
    // probes (cumulative)
    pub n_collections: u64,
    pub n_measurements: u64,
    pub stuck_delta0: u64,
    pub stuck_d2: u64,
    pub stuck_d3: u64,
    pub big_delta: u64,
    pub neg_delta: u64,
}

#[derive(Debug, Clone, PartialEq)]
pub struct Stuck;

struct Ec {
    prev: u64,
    last_delta: i32,
    last_delta2: i32,
}

/// One bit-serial pass of all 64 bits of `time` through the Fibonacci LFSR
/// x^64 + x^61 + x^56 + x^31 + x^28 + x^23 + 1, one rotation per bit.
pub fn lfsr_fold(mut pool: u64, time: u64) -> u64 {
    for i in 0..64 {
        let tbit = (time >> i) & 1;
        let fb = tbit
            ^ (pool & 1)
            ^ ((pool >> 63) & 1)
            ^ ((pool >> 60) & 1)
            ^ ((pool >> 55) & 1)
            ^ ((pool >> 30) & 1)
            ^ ((pool >> 27) & 1)
            ^ ((pool >> 22) & 1);
        pool = (pool & !1u64) | fb;
        pool = pool.rotate_left(1);
    }
    pool
}

/// Stir: a mixer that starts at the 3rd/4th SHA-1 IV words, XORs the 1st/2nd IV words in for
/// every set bit of the pool (rotating by one per bit), XORed into the pool once.
pub fn stir(pool: u64) -> u64 {
    const C: u64 = 0x6745_2301_efcd_ab89;
    let mut mixer: u64 = 0x98ba_dcfe_1032_5476;
    for i in 0..64 {
        if (pool >> i) & 1 == 1 {
            mixer ^= C;
        }
        mixer = mixer.rotate_left(1);
    }
    pool ^ mixer
}

impl JitterModel {
    pub fn new(clock: ModelClock) -> JitterModel {
        JitterModel {
            pool: 0,
            rounds: 64,
            half: false,
            clock,
            half_uncertain: false,
            half_orig: 0,
            n_collections: 0,
            n_measurements: 0,
            stuck_delta0: 0,
            stuck_d2: 0,
            stuck_d3: 0,
            big_delta: 0,
            neg_delta: 0,
        }
    }

    pub fn reads(&self) -> u64 {
        self.clock.pos
    }

    /// one measurement: three readings in the order loop-count, timestamp, loop-count;
    /// returns true when it passes the stuck test
    fn measure(&mut self, ec: &mut Ec) -> bool {
        let _loop_cnt_mem = self.clock.read();
        let t = self.clock.read();
        let delta = t.wrapping_sub(ec.prev) as u32 as i32;
        ec.prev = t;
        let _loop_cnt_lfsr = self.clock.read();
        self.pool = lfsr_fold(self.pool, delta as i64 as u64);
        self.n_measurements += 1;
        let d2 = ec.last_delta.wrapping_sub(delta);
        let d3 = d2.wrapping_sub(ec.last_delta2);
        ec.last_delta = delta;
        ec.last_delta2 = d2;
        if delta < 0 {
            self.neg_delta += 1;
        }
        if delta.unsigned_abs() >= 0x7fff_0000 {
            self.big_delta += 1;
        }
        if delta == 0 {
            self.stuck_delta0 += 1;
            return false;
        }
        if d2 == 0 {
            self.stuck_d2 += 1;
            return false;
        }
        if d3 == 0 {
            self.stuck_d3 += 1;
            return false;
        }
        self.pool = self.pool.rotate_left(7);
        true
    }

    /// one 64-bit collection; `max_pos` bounds the clock cursor (a script that stays stuck
    /// longer is discarded by the caller)
    pub fn collect(&mut self, max_pos: u64) -> Result<u64, Stuck> {
        self.n_collections += 1;
        let mut ec = Ec { prev: self.clock.read(), last_delta: 0, last_delta2: 0 };
        // priming measurement: an ordinary measurement whose verdict is ignored
        let _ = self.measure(&mut ec);
        for _ in 0..self.rounds {
            loop {
                if self.clock.pos > max_pos {
                    return Err(Stuck);
                }
                if self.measure(&mut ec) {
                    break;
                }
            }
        }
        self.pool = stir(self.pool);
        Ok(self.pool)
    }

    pub fn next_u64(&mut self, max_pos: u64) -> Result<u64, Stuck> {
        self.half = false;
        self.half_uncertain = false;
        self.collect(max_pos)
    }

    pub fn next_u32(&mut self, max_pos: u64) -> Result<u32, Stuck> {
        if self.half {
            self.half = false;
            Ok((self.pool >> 32) as u32)
        } else {
            let v = self.next_u64(max_pos)?;
            self.half = true;
            self.half_orig = v;
            Ok(v as u32)
        }
    }

    /// the documented fill_bytes_via_next composition
    pub fn fill_bytes(&mut self, n: usize, max_pos: u64) -> Result<Vec<u8>, Stuck> {
        let mut out = Vec::with_capacity(n + 8);
        for _ in 0..n / 8 {
            out.extend_from_slice(&self.next_u64(max_pos)?.to_le_bytes());
        }
        let tail = n % 8;
        if tail > 4 {
            out.extend_from_slice(&self.next_u64(max_pos)?.to_le_bytes()[..tail]);
        } else if tail > 0 {
            out.extend_from_slice(&self.next_u32(max_pos)?.to_le_bytes()[..tail]);
        }
        Ok(out)
    }

    /// timer_stats(var): readings timestamp, [loop-count, loop-count,] timestamp; one fold of the
    /// full 64-bit first reading; returns the difference of the two timestamps
    pub fn timer_stats(&mut self, var: bool) -> i64 {
        let t = self.clock.read();
        if var {
            let _ = self.clock.read();
            let _ = self.clock.read();
        }
        self.pool = lfsr_fold(self.pool, t);
        let t2 = self.clock.read();
        if self.half {
            self.half_uncertain = true;
        }
        t2.wrapping_sub(t) as i64
    }

    pub fn set_rounds(&mut self, r: u8) {
        self.rounds = r as u32;
    }

    /// clone: same pool and rounds, no pending half, forked clock
    pub fn fork(&self, fork_no: usize) -> JitterModel {
        let mut m = self.clone();
        m.half = false;
        m.half_uncertain = false;
        m.clock = self.clock.fork(fork_no);
        m
    }
}

// ------------------------------------------------------------------------------------------
// test_timer (C13)
// ------------------------------------------------------------------------------------------

pub const PROBES: usize = 400;
pub const WARMUP: usize = 100;
pub const MEASURED: u64 = 300;
pub const TT_READS: usize = 1 + 4 * PROBES;

#[derive(Clone, Debug, Default, PartialEq)]
pub struct TimerFacts {
    /// a reading of a probe (first or second) was literally 0; index of the first such probe
    pub zero_reading_at: Option<usize>,
    /// 32-bit truncated delta of a probe was 0
    pub zero_delta_at: Option<usize>,
    pub backwards: u32,
    pub mod100: u32,
    pub stuck: u32,
    pub delta_sum: u64,
    pub mean: u64,
    /// probes fully evaluated (a failure that returns early stops the count)
    pub probes_seen: usize,
}

/// Recompute the documented failure conditions over the first `consumed` readings of a trace.
/// Reading layout: r[0] primes; probe i uses r[1+4i] (first reading), two loop-count readings,
/// r[4+4i] (second reading). The 100 warm-up probes count only for the zero-reading and
/// zero-delta checks.
pub fn timer_facts(r: &dyn Fn(u64) -> u64, probes: usize) -> TimerFacts {
    let mut f = TimerFacts::default();
    let mut last_delta: i32 = 0;
    let mut last_delta2: i32 = 0;
    let mut old_delta: i32 = 0;
    for i in 0..probes {
        let t1 = r(1 + 4 * i as u64);
        let t2 = r(4 + 4 * i as u64);
        f.probes_seen = i + 1;
        if (t1 == 0 || t2 == 0) && f.zero_reading_at.is_none() {
            f.zero_reading_at = Some(i);
        }
        let delta = t2.wrapping_sub(t1) as u32 as i32;
        if delta == 0 && f.zero_delta_at.is_none() {
            f.zero_delta_at = Some(i);
        }
        if i < WARMUP {
            continue;
        }
        // stuck: delta, first difference or second difference is zero
        let d2 = last_delta.wrapping_sub(delta);
        let d3 = d2.wrapping_sub(last_delta2);
        last_delta = delta;
        last_delta2 = d2;
        if delta == 0 || d2 == 0 || d3 == 0 {
            f.stuck += 1;
        }
        if t2 <= t1 {
            f.backwards += 1;
        }
        if delta % 100 == 0 {
            f.mod100 += 1;
        }
        f.delta_sum += delta.wrapping_sub(old_delta).unsigned_abs() as u64;
        old_delta = delta;
    }
    f.mean = f.delta_sum / MEASURED;
    f
}

pub fn bitlen(x: u64) -> u32 {
    64 - x.leading_zeros()
}
