//! Crafted clock scripts: timer deltas solved (GF(2) elimination over the reference model, which is
//! affine in the delta bits) so that the FIRST value a fresh JitterRng collects has a chosen half
//! (or all 64 bits) equal to zero. Random scripts reach such values with probability 2^-32 / 2^-64;
//! a sentinel collision ("0 means no half pending", "0 means uninitialised") only shows there.

use crate::models::jitter::{lfsr_fold, stir};
use crate::prng::Prng;

/// value collected from pool `pool0` by non-stuck measurements with these (positive, 31-bit) deltas
fn pure_value_from(pool0: u64, deltas: &[u32]) -> u64 {
    let mut p = pool0;
    for d in deltas {
        p = lfsr_fold(p, *d as u64).rotate_left(7);
    }
    stir(p)
}

/// value collected from a zero pool by non-stuck measurements with these (positive, 31-bit) deltas
fn pure_value(deltas: &[u32]) -> u64 {
    let mut p = 0u64;
    for d in deltas {
        p = lfsr_fold(p, *d as u64).rotate_left(7);
    }
    stir(p)
}

fn stuck_free(deltas: &[u32]) -> bool {
    let (mut last, mut last2) = (0i32, 0i32);
    for d in deltas {
        let d = *d as i32;
        let d2 = last.wrapping_sub(d);
        let d3 = d2.wrapping_sub(last2);
        last = d;
        last2 = d2;
        if d <= 0 || d2 == 0 || d3 == 0 {
            return false;
        }
    }
    true
}

/// Solve for `n` deltas (n = rounds + 1) such that `pure_value(deltas) & mask == 0`.
pub fn solve_deltas(rng: &mut Prng, n: usize, mask: u64) -> Option<Vec<u32>> {
    solve_deltas_from(rng, 0, n, mask, 0)
}

/// Solve for `n` deltas such that a collection that starts from pool `pool0` yields a value `v` with
/// `v & mask == target & mask` (e.g. target = pool0, mask = all ones: the collection returns the value
/// the previous one returned - a fixed point).
pub fn solve_deltas_from(rng: &mut Prng, pool0: u64, n: usize, mask: u64, target: u64) -> Option<Vec<u32>> {
    solve_deltas_xf(rng, pool0, n, mask, target, |v| v)
}

/// halves of a value compared with each other: `fold_halves(v) & MASK_LO == 0` iff low half == high half
pub fn fold_halves(v: u64) -> u64 {
    v ^ (v >> 32)
}

/// The same with a GF(2)-linear transform `xf` applied to the value first (e.g. `fold_halves`: a
/// RELATION between parts of the value instead of a fixed pattern).
pub fn solve_deltas_xf(rng: &mut Prng, pool0: u64, n: usize, mask: u64, target: u64, xf: fn(u64) -> u64) -> Option<Vec<u32>> {
    let pure_value = |d: &[u32]| xf(pure_value_from(pool0, d) ^ target);
    let nvars = 31 * n;
    if nvars > 128 {
        return None;
    }
    let to_deltas = |x: u128| -> Vec<u32> { (0..n).map(|k| ((x >> (31 * k)) & 0x7fff_ffff) as u32).collect() };
    let c = pure_value(&to_deltas(0)) & mask;
    // column j of the affine map
    let cols: Vec<u64> = (0..nvars).map(|j| (pure_value(&to_deltas(1u128 << j)) & mask) ^ c).collect();
    // equations: for every bit b of mask: XOR_j x_j * cols[j].bit(b) = c.bit(b)
    let mut rows: Vec<(u128, bool)> = Vec::new();
    for b in 0..64 {
        if (mask >> b) & 1 == 0 {
            continue;
        }
        let mut r = 0u128;
        for (j, col) in cols.iter().enumerate() {
            if (col >> b) & 1 == 1 {
                r |= 1u128 << j;
            }
        }
        rows.push((r, (c >> b) & 1 == 1));
    }
    // Gaussian elimination
    let mut pivots: Vec<usize> = Vec::new();
    let mut rank = 0;
    for j in 0..nvars {
        if let Some(p) = (rank..rows.len()).find(|i| (rows[*i].0 >> j) & 1 == 1) {
            rows.swap(rank, p);
            let (pr, pb) = rows[rank];
            for i in 0..rows.len() {
                if i != rank && (rows[i].0 >> j) & 1 == 1 {
                    rows[i].0 ^= pr;
                    rows[i].1 ^= pb;
                }
            }
            pivots.push(j);
            rank += 1;
        }
    }
    if rows[rank..].iter().any(|(r, b)| *r == 0 && *b) {
        return None; // inconsistent
    }
    let free: Vec<usize> = (0..nvars).filter(|j| !pivots.contains(j)).collect();
    for _ in 0..200 {
        // random assignment of the free variables, pivots follow
        let mut x = 0u128;
        for f in &free {
            if rng.chance(1, 2) {
                x |= 1u128 << f;
            }
        }
        for (i, p) in pivots.iter().enumerate() {
            let (r, b) = rows[i];
            let others = r & !(1u128 << p);
            let parity = ((others & x).count_ones() & 1 == 1) ^ b;
            if parity {
                x |= 1u128 << p;
            }
        }
        let d = to_deltas(x);
        if stuck_free(&d) && pure_value(&d) & mask == 0 {
            return Some(d);
        }
    }
    None
}

/// Clock readings for the first collection of a fresh JitterRng (`rounds` = deltas.len() - 1): one
/// priming reading, then per measurement (loop-count, timestamp, loop-count).
pub fn crafted_prefix(rng: &mut Prng, deltas: &[u32]) -> Vec<u64> {
    let mut t = rng.range(1, 1 << 40);
    let mut r = vec![t];
    for d in deltas {
        let prev = t;
        t = t.wrapping_add(*d as u64);
        r.push(prev.wrapping_add(rng.below(*d as u64)));
        r.push(t);
        r.push(t.wrapping_add(rng.below(50)));
    }
    r
}

pub const MASK_HI: u64 = 0xffff_ffff_0000_0000;
pub const MASK_LO: u64 = 0x0000_0000_ffff_ffff;
pub const MASK_ALL: u64 = u64::MAX;

// ------------------------------------------------------------------------------------------
// Linear engines (xoshiro / xoroshiro / xorshift): seeds crafted through the engine's own linearity
// ------------------------------------------------------------------------------------------

/// `oracle(seed bytes) -> state image after some transformation` must be GF(2)-linear in the seed
/// (true for from_seed followed by steps / jump() / long_jump() of the linear generators; the code
/// under test itself is the oracle, evaluated on the unit seeds). Returns a non-zero seed for which
/// the bytes `zero_at .. zero_at + zero_len` of the transformed state are all zero.
pub fn solve_linear_seed(
    rng: &mut Prng,
    seed_len: usize,
    oracle: &dyn Fn(&[u8]) -> Option<Vec<u8>>,
    zero_at: usize,
    zero_len: usize,
) -> Option<Vec<u8>> {
    let nvars = seed_len * 8;
    let words = (nvars + 63) / 64;
    // column j = image of unit seed j, restricted to the constrained bytes
    let mut cols: Vec<Vec<u8>> = Vec::with_capacity(nvars);
    for j in 0..nvars {
        let mut s = vec![0u8; seed_len];
        s[j / 8] = 1 << (j % 8);
        let img = oracle(&s)?;
        if img.len() < zero_at + zero_len {
            return None;
        }
        cols.push(img[zero_at..zero_at + zero_len].to_vec());
    }
    // rows: one equation per constrained bit: XOR_j x_j * cols[j].bit(b) = 0
    let mut rows: Vec<Vec<u64>> = Vec::new();
    for b in 0..zero_len * 8 {
        let mut r = vec![0u64; words];
        for (j, c) in cols.iter().enumerate() {
            if (c[b / 8] >> (b % 8)) & 1 == 1 {
                r[j / 64] |= 1u64 << (j % 64);
            }
        }
        rows.push(r);
    }
    // eliminate; collect pivot columns
    let mut pivots: Vec<usize> = Vec::new();
    let mut rank = 0;
    for j in 0..nvars {
        let bit = |r: &Vec<u64>| (r[j / 64] >> (j % 64)) & 1 == 1;
        if let Some(p) = (rank..rows.len()).find(|i| bit(&rows[*i])) {
            rows.swap(rank, p);
            let pr = rows[rank].clone();
            for i in 0..rows.len() {
                if i != rank && bit(&rows[i]) {
                    for w in 0..words {
                        rows[i][w] ^= pr[w];
                    }
                }
            }
            pivots.push(j);
            rank += 1;
        }
    }
    let is_pivot: Vec<bool> = {
        let mut v = vec![false; nvars];
        for p in &pivots {
            v[*p] = true;
        }
        v
    };
    for _ in 0..50 {
        let mut x = vec![0u64; words];
        for j in 0..nvars {
            if !is_pivot[j] && rng.chance(1, 2) {
                x[j / 64] |= 1u64 << (j % 64);
            }
        }
        for (i, p) in pivots.iter().enumerate() {
            // pivot variable = parity of the free variables in its row
            let mut par = 0u32;
            for w in 0..words {
                let mut m = rows[i][w] & x[w];
                if *p / 64 == w {
                    m &= !(1u64 << (*p % 64));
                }
                par ^= m.count_ones() & 1;
            }
            if par == 1 {
                x[*p / 64] |= 1u64 << (*p % 64);
            }
        }
        let mut seed = vec![0u8; seed_len];
        for j in 0..nvars {
            if (x[j / 64] >> (j % 64)) & 1 == 1 {
                seed[j / 8] |= 1 << (j % 8);
            }
        }
        if seed.iter().all(|b| *b == 0) {
            continue;
        }
        // verify with the oracle itself (also guards against a non-linear transformation). If the
        // code under test FAILS on the solved seed (it may panic exactly because the state has a zero
        // word), the seed is what we are looking for: the run that uses it will show the failure.
        match oracle(&seed) {
            Some(img) => {
                if img[zero_at..zero_at + zero_len].iter().all(|b| *b == 0) && !img.iter().all(|b| *b == 0) {
                    return Some(seed);
                }
            }
            None => return Some(seed),
        }
    }
    None
}

/// Readings for the first collection of a fresh generator whose measurement deltas are given as signed
/// values (they may be negative or huge: the clock then steps backwards / jumps).
pub fn crafted_prefix_signed(rng: &mut Prng, deltas: &[i64]) -> Vec<u64> {
    let mut t = rng.range(1 << 40, 1 << 41);
    let mut r = vec![t];
    for d in deltas {
        let prev = t;
        t = t.wrapping_add(*d as u64);
        r.push(prev);
        r.push(t);
        r.push(t);
    }
    r
}

/// Three consecutive 32-bit deltas x, y, z whose second difference is a non-zero multiple of 2^32 over
/// the integers (so it is zero in 32-bit wrapping arithmetic): 2y - x - z = +-2^32.
pub fn wrapping_second_difference(rng: &mut Prng) -> [i64; 3] {
    loop {
        let y = rng.range(1 << 29, (1 << 31) - 1) as i64 * if rng.chance(1, 2) { 1 } else { -1 };
        let x = -(y.signum()) * rng.range(1, (1 << 31) - 1) as i64;
        let z = 2 * y - x - y.signum() * (1i64 << 32);
        if z > -(1i64 << 31) && z < (1i64 << 31) && z != 0 && z != y && x != y {
            return [x, y, z];
        }
    }
}


/// The 64-bit word `x` with `lfsr_fold(pool, x) == target` (one fold of a full 64-bit time stamp, as
/// `timer_stats` and every probe of `test_timer` do): the fold is affine in `x` over GF(2).
pub fn solve_fold_to(pool: u64, target: u64) -> Option<u64> {
    let c = lfsr_fold(pool, 0);
    let cols: Vec<u64> = (0..64).map(|j| lfsr_fold(pool, 1u64 << j) ^ c).collect();
    // solve sum_j x_j cols[j] = target ^ c by elimination on a 64 x 65 system (rows = bits)
    let rhs = target ^ c;
    let mut rows: Vec<(u64, bool)> = (0..64).map(|b| {
        let mut r = 0u64;
        for (j, col) in cols.iter().enumerate() {
            if (col >> b) & 1 == 1 {
                r |= 1 << j;
            }
        }
        (r, (rhs >> b) & 1 == 1)
    }).collect();
    let mut piv_of_col = [usize::MAX; 64];
    let mut rank = 0usize;
    for col in 0..64 {
        if let Some(p) = (rank..64).find(|r| (rows[*r].0 >> col) & 1 == 1) {
            rows.swap(rank, p);
            let (pr, pb) = rows[rank];
            for r in 0..64 {
                if r != rank && (rows[r].0 >> col) & 1 == 1 {
                    rows[r].0 ^= pr;
                    rows[r].1 ^= pb;
                }
            }
            piv_of_col[col] = rank;
            rank += 1;
        }
    }
    if rows[rank..].iter().any(|r| r.0 == 0 && r.1) {
        return None;
    }
    let mut x = 0u64;
    for col in 0..64 {
        if piv_of_col[col] != usize::MAX && rows[piv_of_col[col]].1 {
            x |= 1 << col;
        }
    }
    if lfsr_fold(pool, x) == target {
        Some(x)
    } else {
        None
    }
}
