mod clockgen;
mod craft;
mod engine;
mod gens;
mod minimise;
mod models;
#[cfg(feature = "snap")]
mod nhr;
mod prng;
mod props;
mod seams;
mod spec;

use spec::Tier;
use std::time::Duration;

fn tier_of(s: &str) -> Tier {
    match s {
        "quick" => Tier::Quick,
        "thorough" => Tier::Thorough,
        _ => {
            eprintln!("tier must be quick|thorough");
            std::process::exit(2)
        }
    }
}

fn main() {
    gens::install_quiet_panic_hook();
    engine::install_logger();
    let args: Vec<String> = std::env::args().collect();
    if args.len() < 2 {
        eprintln!("usage: rngsim parent <ID> <tier> | worker ... | replay <file>");
        std::process::exit(2);
    }
    let code = match args[1].as_str() {
        "parent" => {
            let scn = props::scenario(&args[2]).unwrap_or_else(|| {
                eprintln!("unknown property {}", args[2]);
                std::process::exit(2)
            });
            let seed = engine::env_u64("VERIF_SEED", 1);
            engine::parent(scn.as_ref(), tier_of(&args[3]), seed)
        }
        "worker" => {
            let scn = props::scenario(&args[2]).expect("property");
            let tier = tier_of(&args[3]);
            let p = |i: usize| args[i].parse::<u64>().expect("number");
            // watchdog: the worker loop stops by itself at the wall-clock cap; if the process is
            // still alive long after that, one run does not return (a hang in the code under test or
            // in the harness): give up loudly instead of blocking the parent forever
            // a worker does not outlive the parent that collects its result
            unsafe {
                libc::prctl(libc::PR_SET_PDEATHSIG, libc::SIGKILL);
            }
            // hang monitor: counts seconds (sleeping, never reading a clock - the wall-clock seam may be
            // bending the clock at that moment) during which the same execution of the same run is still going
            std::thread::spawn(|| {
                use std::sync::atomic::Ordering;
                let limit = engine::run_limit_s();
                let mut last = (0u64, u64::MAX);
                let mut ticks = 0u64;
                loop {
                    std::thread::sleep(Duration::from_secs(1));
                    let cur = (engine::RUN_SEQ.load(Ordering::Relaxed), engine::RUN_IDX.load(Ordering::Relaxed));
                    if cur == last && cur.1 != u64::MAX {
                        ticks += 1;
                        if ticks >= limit {
                            use std::io::Write;
                            let _ = writeln!(std::io::stdout(), "IDX {}", cur.1);
                            let _ = writeln!(std::io::stdout(), "HANG {}", cur.1);
                            let _ = std::io::stdout().flush();
                            std::process::exit(4);
                        }
                    } else {
                        last = cur;
                        ticks = 0;
                    }
                }
            });
            let cap = p(8);
            std::thread::spawn(move || {
                std::thread::sleep(Duration::from_secs(cap + 300));
                {
                    use std::io::Write;
                    let _ = writeln!(std::io::stderr(), "HARNESS-ERROR: worker watchdog: a run did not return {} s after the wall-clock cap", 300);
                    let _ = writeln!(std::io::stdout(), "HARNESS-ERROR: worker watchdog");
                }
                std::process::exit(3);
            });
            let out = engine::worker(scn.as_ref(), tier, p(4), p(5), p(6), p(7), Duration::from_secs(p(8)));
            println!("{}", serde_json::to_string(&out).unwrap());
            0
        }
        "one" => {
            // debugging aid: rngsim one <ID> <tier> <idx> [--spec]
            let scn = props::scenario(&args[2]).expect("property");
            let tier = tier_of(&args[3]);
            let idx: u64 = args[4].parse().unwrap();
            let seed = engine::env_u64("VERIF_SEED", 1);
            let mut rng = prng::Prng::new(engine::run_seed(seed, scn.id(), idx));
            let spec = engine::generate(scn.as_ref(), &mut rng, tier);
            if args.len() > 5 {
                println!("{}", serde_json::to_string(&spec).unwrap());
            }
            let mut st = spec::Stats::default();
            let r = engine::execute_guarded(scn.as_ref(), &spec, &mut st);
            println!("{:?}", r);
            println!("{:?}", st.counters);
            0
        }
        "c18" => {
            // rngsim c18 <tier> name=path name=path ...
            let scn = props::scenario("C18").unwrap();
            let seed = engine::env_u64("VERIF_SEED", 1);
            let bins: Vec<(String, String)> = args[3..]
                .iter()
                .filter_map(|a| a.split_once('=').map(|(n, p)| (n.to_string(), p.to_string())))
                .collect();
            engine::parent_c18(scn.as_ref(), tier_of(&args[2]), seed, &bins)
        }
        "corpus-file" => {
            // rngsim corpus-file <file with a JSON array of specs> [from]: one line "i digest" per spec,
            // flushed, so that the parent knows which spec was running if the process is killed
            use std::io::Write;
            let txt = std::fs::read_to_string(&args[2]).expect("read");
            let specs: Vec<spec::Spec> = serde_json::from_str(&txt).expect("specs");
            let from: usize = args.get(3).and_then(|s| s.parse().ok()).unwrap_or(0);
            for (i, sp) in specs.iter().enumerate().skip(from) {
                println!("RUN {}", i);
                std::io::stdout().flush().ok();
                let mut st = spec::Stats::default();
                engine::set_run_environment(sp);
                let v = engine::on_spec_thread(sp, || props::c18::exec_corpus(sp, &mut st)).unwrap_or_default();
                seams::clock::release_run_registries();
                println!("DIG {} {}", i, v.last().copied().unwrap_or(0));
                std::io::stdout().flush().ok();
            }
            0
        }
        "corpus-one" => {
            // prints the per-operation digests of one corpus spec (replay file or bare spec)
            let txt = std::fs::read_to_string(&args[2]).expect("read");
            let spec: spec::Spec = match serde_json::from_str::<engine::ReplayFile>(&txt) {
                Ok(rf) => rf.spec,
                Err(_) => serde_json::from_str(&txt).expect("spec"),
            };
            let mut st = spec::Stats::default();
            engine::set_run_environment(&spec);
            let v = engine::on_spec_thread(&spec, || props::c18::exec_corpus(&spec, &mut st)).unwrap_or_default();
            println!("{}", v.iter().map(|x| x.to_string()).collect::<Vec<_>>().join(" "));
            0
        }
        "c19race" => props::c19::race_main(args[2].parse().unwrap_or(1), args.get(3).and_then(|x| x.parse().ok()).unwrap_or(40_000)),
        "c19run" => props::c19::proc_main("c19run", &args[2]),
        "alone" => props::c19::proc_main("alone", &args[2]),
        "selftest" => {
            let ids: Vec<String> = if args.len() > 2 { args[2..].to_vec() } else { props::ALL.iter().map(|s| s.to_string()).collect() };
            let scns = ids.iter().filter_map(|i| props::scenario(i)).collect();
            engine::selftest(scns, engine::env_u64("VERIF_SEED", 1))
        }
        "replay" => engine::replay(&|id| props::scenario(id), &args[2]),
        other => {
            eprintln!("unknown mode {}", other);
            2
        }
    };
    std::process::exit(code);
}
