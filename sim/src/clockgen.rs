//! Generation of clock scripts (the readings a `SimClock` hands out) with the clock-fault
//! catalogue of DESIGN.md section 2.4. Everything is drawn from the run's PRNG.

use crate::prng::Prng;
use crate::seams::clock::ClockSpec;

#[derive(Clone, Copy, Debug, PartialEq, Eq, PartialOrd, Ord)]
#[repr(u8)]
pub enum CF {
    Stall = 0,
    ConstDelta = 1,
    Ramp = 2,
    Backward = 3,
    JumpPos31 = 4,
    JumpNeg31 = 5,
    Jump2p32 = 6,
    ZeroReading = 7,
    Coarse100 = 8,
    TinyVar = 9,
    WrapU64 = 10,
    BigPause = 11,
    LongStuck = 12,
    PinValue = 13,
}

pub const ALL_CF: [CF; 12] = [
    CF::Stall,
    CF::ConstDelta,
    CF::Ramp,
    CF::Backward,
    CF::JumpPos31,
    CF::JumpNeg31,
    CF::Jump2p32,
    CF::ZeroReading,
    CF::Coarse100,
    CF::TinyVar,
    CF::WrapU64,
    CF::BigPause,
];

impl CF {
    pub fn name(self) -> &'static str {
        match self {
            CF::Stall => "stall",
            CF::ConstDelta => "const_delta",
            CF::Ramp => "ramp",
            CF::Backward => "backward",
            CF::JumpPos31 => "jump_pos31",
            CF::JumpNeg31 => "jump_neg31",
            CF::Jump2p32 => "jump_2p32",
            CF::ZeroReading => "zero_reading",
            CF::Coarse100 => "coarse100",
            CF::TinyVar => "tiny_var",
            CF::WrapU64 => "wrap_u64",
            CF::BigPause => "big_pause",
            CF::LongStuck => "long_stuck",
            CF::PinValue => "pin_value",
        }
    }
    pub fn from_u8(x: u8) -> Option<CF> {
        if x == CF::LongStuck as u8 {
            return Some(CF::LongStuck);
        }
        if x == CF::PinValue as u8 {
            return Some(CF::PinValue);
        }
        ALL_CF.iter().copied().find(|c| *c as u8 == x)
    }
}

pub struct ClockCfg {
    /// number of explicit readings
    pub n: usize,
    /// enabled fault kinds (swarm: a random subset per run)
    pub faults: Vec<CF>,
    /// expected number of fault sites per 1000 readings
    pub rate_per_1000: u32,
    /// max length of a stuck stretch (bounded so the run makes progress)
    pub max_stretch: u32,
    /// one very long stretch (thousands of readings) during which the clock ticks at a perfectly
    /// constant rate: every measurement in it is stuck; it ends before the stuck cap
    pub long_stuck: bool,
}

/// Returns the spec and the list of (reading index, fault kind) marks; the executor counts a
/// fault as *fired* only if the marked reading was actually consumed.
pub fn gen_clock(rng: &mut Prng, cfg: &ClockCfg) -> (ClockSpec, Vec<(u32, u8)>) {
    let mut readings = Vec::with_capacity(cfg.n);
    let mut marks = Vec::new();
    let wrap = cfg.faults.contains(&CF::WrapU64);
    let mut t: u64 = if wrap {
        // start close below u64::MAX so that the readings cross the wrap-around
        u64::MAX - rng.below(50_000)
    } else {
        match rng.below(6) {
            0 => rng.range(1, 1 << 20),
            1 => rng.range(1 << 31, (1 << 33) + 77),
            2 => rng.u64() >> rng.below(30),
            3 => {
                // just below a power-of-two boundary of the reading itself (2^31, 2^32, 2^63, ...):
                // the readings of this run then cross it (sign boundaries of i32/i64 views of a reading)
                let k = *rng.pick(&[31u32, 32, 33, 62, 63]);
                (1u64 << k).wrapping_sub(rng.range(1, 200_000))
            }
            _ => 1_600_000_000_000_000_000u64.wrapping_add(rng.below(1 << 40)),
        }
    };
    if t == 0 {
        t = 1;
    }
    let base = match rng.below(4) {
        0 => rng.range(20, 200),
        1 => rng.range(200, 5_000),
        2 => rng.range(5_000, 200_000),
        _ => rng.range(1, 60),
    };
    let amp = match rng.below(4) {
        0 => rng.range(2, 16),
        1 => rng.range(16, 300),
        2 => rng.range(300, 100_000),
        _ => rng.range(1, 4),
    };
    if wrap {
        marks.push((0, CF::WrapU64 as u8));
    }
    let stretch_faults: Vec<CF> = cfg.faults.iter().copied().filter(|f| *f != CF::WrapU64).collect();
    let mut i = 0usize;
    let long_at = if cfg.long_stuck { Some(rng.below(cfg.n.max(1) as u64 / 2 + 1) as usize) } else { None };
    while i < cfg.n {
        if Some(i) == long_at {
            marks.push((i as u32, CF::LongStuck as u8));
            // up to ~6600 stuck measurements in one operation (still well below the stuck cap)
            let len = if rng.chance(1, 3) { rng.range(9_000, 20_000) } else { rng.range(3_100, 9_000) } as usize;
            let d = if rng.chance(1, 4) { 0 } else { base + rng.below(amp) };
            for _ in 0..len {
                t = t.wrapping_add(d);
                readings.push(t);
            }
            i += len;
            continue;
        }
        let fault_here = !stretch_faults.is_empty() && rng.below(1000) < cfg.rate_per_1000 as u64;
        if !fault_here {
            t = t.wrapping_add(base + rng.below(amp));
            readings.push(t);
            i += 1;
            continue;
        }
        let f = *rng.pick(&stretch_faults);
        marks.push((i as u32, f as u8));
        let k = rng.range(1, cfg.max_stretch.max(1) as u64) as usize;
        match f {
            CF::Stall => {
                for _ in 0..k {
                    readings.push(t);
                }
                i += k;
            }
            CF::ConstDelta => {
                let d = base + rng.below(amp);
                for _ in 0..k.max(3) {
                    t = t.wrapping_add(d);
                    readings.push(t);
                }
                i += k.max(3);
            }
            CF::Ramp => {
                let mut d = base + rng.below(amp);
                let s = rng.range(1, 9);
                for _ in 0..k.max(4) {
                    t = t.wrapping_add(d);
                    d += s;
                    readings.push(t);
                }
                i += k.max(4);
            }
            CF::Backward => {
                let x = match rng.below(3) {
                    0 => rng.range(1, 50),
                    1 => rng.range(50, 1_000_000),
                    _ => rng.range(1, 1 << 40),
                };
                t = t.wrapping_sub(x);
                readings.push(t);
                i += 1;
            }
            CF::JumpPos31 => {
                // truncated delta lands within a few units of +-2^31
                let e = rng.below(5) as i64 - 2;
                let d = (0x8000_0000i64 + e) as u64 + (rng.below(3) << 32);
                t = t.wrapping_add(d);
                readings.push(t);
                i += 1;
            }
            CF::JumpNeg31 => {
                let e = rng.below(5) as i64 - 2;
                let d = (0x8000_0000i64 + e) as u64 + (rng.below(3) << 32);
                t = t.wrapping_sub(d);
                readings.push(t);
                i += 1;
            }
            CF::Jump2p32 => {
                // delta is a multiple of 2^32 (truncates to 0), sometimes plus a small rest
                let d = (rng.range(1, 5) << 32) + if rng.chance(1, 2) { 0 } else { rng.below(8) };
                t = t.wrapping_add(d);
                readings.push(t);
                i += 1;
            }
            CF::ZeroReading => {
                readings.push(0);
                i += 1;
            }
            CF::Coarse100 => {
                t = t - t % 100;
                for _ in 0..k.max(2) {
                    t = t.wrapping_add(100 * rng.range(1, 40));
                    readings.push(t);
                }
                i += k.max(2);
            }
            CF::TinyVar => {
                let d = base;
                for _ in 0..k.max(3) {
                    t = t.wrapping_add(d + rng.below(3));
                    readings.push(t);
                }
                i += k.max(3);
            }
            CF::BigPause => {
                // a pause of one to several seconds between two readings (ns units)
                let d = rng.range(900_000_000, 9_000_000_000);
                t = t.wrapping_add(d);
                readings.push(t);
                i += 1;
            }
            CF::WrapU64 | CF::LongStuck | CF::PinValue => unreachable!(),
        }
    }
    if rng.chance(1, 10) {
        if let Some(k) = pin_special(rng, &mut readings, cfg.n) {
            marks.push((k as u32, CF::PinValue as u8));
        }
    }
    let spec = ClockSpec { readings, tail_key: rng.u64(), fork_skews: Vec::new(), freeze: None, abort_at: None };
    (spec, marks)
}

/// Readings that are special as VALUES (all ones, the sign boundaries, powers of two and their
/// neighbours, small numbers): nothing documented depends on the value of a non-zero reading.
pub const SPECIAL_READINGS: [u64; 14] = [
    u64::MAX,
    u64::MAX,
    u64::MAX - 1,
    1,
    2,
    1 << 63,
    (1 << 63) - 1,
    1 << 32,
    (1 << 32) - 1,
    1 << 31,
    (1 << 31) - 1,
    i64::MAX as u64 + 2,
    0xFFFF_FFFF_0000_0000,
    0x0000_0001_0000_0001,
];

/// Shifts the whole script by one constant so that the reading at a drawn index below `n` is exactly
/// one of `SPECIAL_READINGS`. Every delta stays what it was; literal zero readings stay zero. Returns
/// the index.
pub fn pin_special(rng: &mut Prng, readings: &mut [u64], n: usize) -> Option<usize> {
    let n = n.min(readings.len());
    if n == 0 {
        return None;
    }
    let k = rng.below(n as u64) as usize;
    let v = *rng.pick(&SPECIAL_READINGS);
    if readings[k] == 0 {
        return None;
    }
    let shift = v.wrapping_sub(readings[k]);
    for r in readings.iter_mut() {
        if *r != 0 {
            *r = r.wrapping_add(shift);
        }
    }
    Some(k)
}

/// A swarm-style random subset of the fault catalogue.
pub fn pick_faults(rng: &mut Prng, allowed: &[CF]) -> Vec<CF> {
    let mut v = Vec::new();
    match rng.below(5) {
        0 => {} // fault-free run
        1 => v.push(*rng.pick(allowed)),
        _ => {
            for f in allowed {
                if rng.chance(1, 3) {
                    v.push(*f);
                }
            }
        }
    }
    v
}

/// Count as fired the marks whose reading index was consumed.
pub fn count_fired(marks: &[(u32, u8)], consumed: u64, st: &mut crate::spec::Stats) {
    for (i, k) in marks {
        if (*i as u64) < consumed {
            if let Some(cf) = CF::from_u8(*k) {
                st.count(&format!("fault:{}", cf.name()));
            }
        }
    }
}
