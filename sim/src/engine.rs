//! Parent / worker protocol, replay, known findings, evidence.
//!
//! Parallelism is by process: the parent spawns one single-threaded worker process per core;
//! run indices are dealt round-robin, every per-run result is a pure function of
//! (VERIF_SEED, property, run index), and the merged result is independent of the worker count.

use crate::gens::LAST_PANIC;
use crate::minimise::minimise;
use crate::prng::{h2, hstr, Prng};
use crate::spec::{RunEnd, Scenario, Spec, Stats, Tier, Violation};
use serde::{Deserialize, Serialize};
use serde_json::json;
use std::collections::BTreeMap;
use std::io::Read;
use std::panic::{catch_unwind, AssertUnwindSafe};
use std::path::PathBuf;
use std::process::{Command, Stdio};
use std::time::{Duration, Instant};

pub fn verif_dir() -> PathBuf {
    PathBuf::from(std::env::var("VERIF_DIR").unwrap_or_else(|_| "/verif".into()))
}

pub fn env_u64(name: &str, default: u64) -> u64 {
    std::env::var(name).ok().and_then(|s| s.trim().parse().ok()).unwrap_or(default)
}

pub fn run_seed(seed: u64, id: &str, idx: u64) -> u64 {
    h2(h2(seed, hstr(id)), idx)
}

/// Execute a spec; a panic that escapes the scenario (i.e. not inside `guard`) is a harness error.
struct Discard;
impl log::Log for Discard {
    fn enabled(&self, m: &log::Metadata) -> bool {
        // `LOGGER_FILTER`: the application wants Trace output from its own modules only (what
        // `RUST_LOG=info,myapp=trace` gives with env_logger): the global max level is Trace, records of the
        // crates under test are refused by the logger itself
        !(LOGGER_FILTER.load(std::sync::atomic::Ordering::Relaxed) && m.target().starts_with("rand_"))
    }
    fn log(&self, record: &log::Record) {
        // the arguments are evaluated (that is the point) and dropped
        if self.enabled(record.metadata()) {
            let _ = format!("{}", record.args());
        }
    }
    fn flush(&self) {}
}
static DISCARD: Discard = Discard;
pub static LOGGER_FILTER: std::sync::atomic::AtomicBool = std::sync::atomic::AtomicBool::new(false);

/// The application's logging configuration is part of the environment a library runs in. A logger
/// that evaluates and discards every record is installed once per process; each run raises or lowers
/// the global max level according to its spec.
pub fn install_logger() {
    let _ = log::set_logger(&DISCARD);
    log::set_max_level(log::LevelFilter::Off);
}

/// Progress of the current worker, for its hang monitor (see main.rs): RUN_SEQ ticks with every execution
/// (also the minimiser's), RUN_IDX is the run index being worked on (u64::MAX between runs).
pub static RUN_SEQ: std::sync::atomic::AtomicU64 = std::sync::atomic::AtomicU64::new(0);
pub static RUN_IDX: std::sync::atomic::AtomicU64 = std::sync::atomic::AtomicU64::new(u64::MAX);
/// seconds one execution may take before the worker gives up on it and reports "HANG <idx>"
pub fn run_limit_s() -> u64 {
    env_u64("VERIF_RUN_LIMIT", 90)
}

/// Runs a child to completion, or kills it after `secs` seconds (None).
pub fn output_with_timeout(cmd: &mut Command, secs: u64) -> Option<std::process::Output> {
    let mut ch = cmd.stdin(Stdio::null()).stdout(Stdio::piped()).stderr(Stdio::null()).spawn().ok()?;
    let mut out = ch.stdout.take()?;
    let reader = std::thread::spawn(move || {
        let mut v = Vec::new();
        let _ = out.read_to_end(&mut v);
        v
    });
    let mut waited = 0u64;
    loop {
        match ch.try_wait() {
            Ok(Some(status)) => {
                let stdout = reader.join().unwrap_or_default();
                return Some(std::process::Output { status, stdout, stderr: Vec::new() });
            }
            Ok(None) => {
                if waited >= secs * 10 {
                    let _ = ch.kill();
                    let _ = ch.wait();
                    let _ = reader.join();
                    return None;
                }
                std::thread::sleep(Duration::from_millis(100));
                waited += 1;
            }
            Err(_) => return None,
        }
    }
}

/// The wall-clock seam: `verif_clock_step` is exported by the LD_PRELOADed clock shim (see
/// /verif/shim/clockshim.c); without the shim the symbol is absent and the seam is inert.
pub mod wallclock {
    use std::sync::OnceLock;
    type SetFn = unsafe extern "C" fn(i64);
    static F: OnceLock<Option<SetFn>> = OnceLock::new();
    extern "C" {
        fn dlsym(handle: *mut core::ffi::c_void, symbol: *const core::ffi::c_char) -> *mut core::ffi::c_void;
    }
    /// returns false when the shim is not loaded
    pub fn set_step_ns(ns: i64) -> bool {
        let f = F.get_or_init(|| unsafe {
            // RTLD_DEFAULT
            let p = dlsym(std::ptr::null_mut(), b"verif_clock_step\0".as_ptr() as *const core::ffi::c_char);
            if p.is_null() {
                None
            } else {
                Some(std::mem::transmute::<*mut core::ffi::c_void, SetFn>(p))
            }
        });
        match f {
            Some(f) => {
                unsafe { f(ns) };
                true
            }
            None => false,
        }
    }
    /// the calendar dates `Spec.wall_date` selects (seconds after the epoch): a board without a clock
    /// battery, 2038, 2106, where nanoseconds since the epoch leave i64 (2262) and u64 (2554), where
    /// seconds << 30 leaves u64, and far beyond
    pub const DATES: [i64; 10] = [0, 3, (1 << 31) + 5, (1 << 32) + 5, 9_223_372_040, (1 << 34) + 9, 18_446_744_080, (1 << 35) + 1, 1 << 40, 1 << 53];
    static D: OnceLock<Option<SetFn>> = OnceLock::new();
    /// returns false when the shim is not loaded
    pub fn set_date(secs: i64) -> bool {
        let f = D.get_or_init(|| unsafe {
            let p = dlsym(std::ptr::null_mut(), b"verif_clock_date\0".as_ptr() as *const core::ffi::c_char);
            if p.is_null() {
                None
            } else {
                Some(std::mem::transmute::<*mut core::ffi::c_void, SetFn>(p))
            }
        });
        match f {
            Some(f) => {
                unsafe { f(secs) };
                true
            }
            None => false,
        }
    }
}

/// Every spec of every scenario is generated through here: the scenario's own generator, then the
/// run's call-site mode (one run in four resolves every call the way generic code does).
pub fn generate(scn: &dyn Scenario, rng: &mut Prng, tier: Tier) -> Spec {
    let mut spec = scn.generate(rng, tier);
    spec.generic = rng.chance(1, 4);
    spec.place = rng.below(4) as u8;
    if scn.id() != "C19" {
        spec.thread = *rng.pick(&[0u8, 0, 0, 0, 0, 0, 1, 2, 3]);
    }
    if spec.kind == Some(crate::gens::Kind::Jitter) && matches!(scn.id(), "C05" | "C12" | "C14" | "C16" | "C17") && rng.chance(1, 10) {
        // real time flies while the code under test runs: 1 ms, 0.3 s, 1.5 s or an hour per clock reading
        spec.wall_step_ms = *rng.pick(&[1u64, 300, 1_500, 3_600_000]);
    }
    if spec.logger && rng.chance(1, 3) {
        // max level Trace, but the logger itself refuses records whose target is one of the crates under test
        spec.logger_filter = true;
    }
    if spec.pre_new {
        // the calendar date the real clock shows while this run's real-clock constructor runs
        spec.wall_date = rng.below(wallclock::DATES.len() as u64) as u8;
    }
    if matches!(scn.id(), "C17" | "C14") {
        // ambient thread context of Debug formatting (see Spec.ctx)
        spec.ctx = *rng.pick(&[0u8, 0, 0, 0, 0, 0, 1, 1, 2]);
    }
    spec
}

/// Runs `f` on the thread the spec asks for (see `Spec.thread`): this one, or a freshly spawned one
/// with a 64 MiB stack (named or not). Used by every mode that executes a spec.
pub fn on_spec_thread<R: Send>(spec: &Spec, f: impl FnOnce() -> R + Send) -> Option<R> {
    if spec.thread == 0 {
        return Some(f());
    }
    let mut b = std::thread::Builder::new().stack_size(64 << 20);
    if spec.thread == 2 {
        b = b.name("application-worker".into());
    }
    std::thread::scope(|sc| match b.spawn_scoped(sc, f) {
        Ok(h) => h.join().ok(),
        Err(_) => None,
    })
}

/// the part of a run's environment that is plain process state (logger level, call-site mode, placement);
/// also applied by the modes that execute a corpus spec directly
pub fn set_run_environment(spec: &Spec) {
    log::set_max_level(if spec.logger { log::LevelFilter::Trace } else { log::LevelFilter::Off });
    LOGGER_FILTER.store(spec.logger_filter, std::sync::atomic::Ordering::Relaxed);
    crate::gens::set_call_generic(spec.generic);
    crate::gens::set_place(spec.place);
    wallclock::set_date(if spec.wall_date > 0 { wallclock::DATES[spec.wall_date as usize % wallclock::DATES.len()] } else { 0 });
}

struct ExitHook(std::cell::RefCell<Option<Box<dyn FnOnce()>>>);
impl Drop for ExitHook {
    fn drop(&mut self) {
        if let Some(f) = self.0.borrow_mut().take() {
            f()
        }
    }
}
thread_local! {
    static EXIT_HOOK: ExitHook = const { ExitHook(std::cell::RefCell::new(None)) };
}

pub fn execute_guarded(scn: &dyn Scenario, spec: &Spec, st: &mut Stats) -> RunEnd {
    RUN_SEQ.fetch_add(1, std::sync::atomic::Ordering::Relaxed);
    crate::gens::set_call_generic(spec.generic);
    crate::gens::set_place(spec.place);
    if spec.generic {
        st.count("probe:generic_call_sites");
    }
    log::set_max_level(if spec.logger { log::LevelFilter::Trace } else { log::LevelFilter::Off });
    LOGGER_FILTER.store(spec.logger_filter, std::sync::atomic::Ordering::Relaxed);
    if spec.logger {
        st.count("fault:trace_logger_enabled");
    }
    if spec.logger && spec.logger_filter {
        st.count("fault:logger_refuses_library_targets");
    }
    let flying = spec.wall_step_ms > 0 && wallclock::set_step_ns((spec.wall_step_ms as i64).saturating_mul(1_000_000));
    if flying {
        st.count("fault:wall_clock_steps");
    }
    let dated = spec.wall_date > 0 && wallclock::set_date(wallclock::DATES[spec.wall_date as usize % wallclock::DATES.len()]);
    if dated {
        st.count("fault:wall_clock_date");
    }
    let body = |st: &mut Stats| -> RunEnd {
        match catch_unwind(AssertUnwindSafe(|| scn.execute(spec, st))) {
            Ok(r) => r,
            Err(_) => {
                let m = LAST_PANIC.with(|p| p.borrow().clone());
                RunEnd::Discard(format!("HARNESS_PANIC: {}", m))
            }
        }
    };
    let r = if spec.thread == 0 {
        body(st)
    } else {
        // a thread that has never run anything: per-thread state of the code under test starts from scratch
        st.count("probe:run_on_fresh_thread");
        let mut b = std::thread::Builder::new().stack_size(64 << 20);
        if spec.thread == 2 {
            b = b.name("application-worker".into());
        }
        // thread == 3: the run is executed once on the fresh thread and then once more while that thread
        // exits, from the destructor of a thread-local value that was registered before the code under
        // test first ran there (so whatever per-thread state the code under test keeps is already gone).
        // The second execution must end like the first.
        let at_exit: std::sync::Arc<std::sync::Mutex<Option<RunEnd>>> = Default::default();
        let exit_run = spec.thread == 3;
        let slot = at_exit.clone();
        // (st is lent to the thread; if the system refuses a thread right now the run simply uses this one)
        let spawned = std::thread::scope(|sc| {
            let st_ref: &mut Stats = &mut *st;
            let body = &body;
            match b.spawn_scoped(sc, move || {
                if exit_run {
                    // the harness's own thread-locals first: they outlive the hook
                    LAST_PANIC.with(|_| ());
                    crate::gens::touch_thread_locals();
                    crate::seams::source::touch_thread_locals();
                    // Safety: the thread (destructors included) is joined before `scn`, `spec` and
                    // `body` go out of scope
                    let again: Box<dyn FnOnce() + '_> = Box::new(move || {
                        let mut st2 = Stats::default();
                        let r2 = body(&mut st2);
                        *slot.lock().unwrap() = Some(r2);
                    });
                    let again: Box<dyn FnOnce() + 'static> = unsafe { std::mem::transmute(again) };
                    EXIT_HOOK.with(|h| *h.0.borrow_mut() = Some(again));
                }
                body(st_ref)
            }) {
                Ok(h) => Some(h.join().unwrap_or_else(|_| RunEnd::Discard("HARNESS_PANIC: run thread died".into()))),
                Err(_) => None,
            }
        });
        match spawned {
            Some(r) => {
                let second = at_exit.lock().unwrap().take();
                match (r, second) {
                    (RunEnd::Ok, Some(RunEnd::Violation(mut v))) => {
                        st.count("probe:run_again_at_thread_exit");
                        v.detail = format!("[second execution of the same run, from a thread-local destructor while the thread exits] {}", v.detail);
                        RunEnd::Violation(v)
                    }
                    (RunEnd::Ok, Some(RunEnd::Discard(s))) if s.starts_with("SUT_PANIC") => {
                        st.count("probe:run_again_at_thread_exit");
                        RunEnd::Discard(s)
                    }
                    (r, second) => {
                        if second.is_some() {
                            st.count("probe:run_again_at_thread_exit");
                        }
                        r
                    }
                }
            }
            None => body(st),
        }
    };
    crate::seams::clock::release_run_registries();
    if flying {
        wallclock::set_step_ns(0);
    }
    if dated {
        wallclock::set_date(0);
    }
    // An operation of the code under test that panics did not return what the functional properties
    // demand of it (the projection of the stream, the documented replacement, the procedure's value, a
    // verdict ...): for those properties it is a violation of their own, keyed by the panic site. (C14
    // keys its violations the same way; C17, C18 and C19 compare and do not demand a value. The one
    // documented panic, set_rounds(0), is issued and contained by the scenarios themselves.)
    match r {
        RunEnd::Discard(s) if s.starts_with("SUT_PANIC") && matches!(scn.id(), "C05" | "C08" | "C09" | "C10" | "C11" | "C12" | "C13" | "C16") => {
            let site = s.rsplit(" @ ").next().unwrap_or("?").to_string();
            let site = match site.rfind("/rand_") {
                Some(i) => site[i + 1..].to_string(),
                None => site,
            };
            let what = s.split(']').next().unwrap_or("").trim_start_matches("SUT_PANIC[").to_string();
            RunEnd::Violation(crate::spec::Violation::new(&format!("{}/operation_panicked@{}", scn.id(), site), what, s))
        }
        other => other,
    }
}

#[derive(Serialize, Deserialize, Clone, Debug)]
pub struct Found {
    pub idx: u64,
    pub class: String,
    pub key: String,
    pub detail: String,
    pub spec: Spec,
    pub shrink_steps: u64,
    pub original_ops: usize,
}

#[derive(Serialize, Deserialize, Clone, Debug, Default)]
pub struct WorkerOut {
    pub runs: u64,
    pub evals: u64,
    pub counters: BTreeMap<String, u64>,
    pub sigs: Vec<u64>,
    pub sim_time_ns: String,
    pub found: Vec<Found>,
    pub samples: Vec<Spec>,
    /// (idx, digest) for the sampled determinism self-check
    pub digests: Vec<(u64, u64)>,
    pub harness_errors: Vec<String>,
    pub timed_out: bool,
}

pub const DIGEST_STRIDE: u64 = 97;

fn one_run(scn: &dyn Scenario, tier: Tier, seed: u64, idx: u64, st: &mut Stats) -> (Spec, RunEnd, u64) {
    let mut rng = Prng::new(run_seed(seed, scn.id(), idx));
    let spec = generate(scn, &mut rng, tier);
    st.log = Default::default();
    let r = execute_guarded(scn, &spec, st);
    let mut d = st.log.clone();
    match &r {
        RunEnd::Ok => d.u64(1),
        RunEnd::Discard(s) => {
            d.u64(2);
            d.str(s)
        }
        RunEnd::Violation(v) => {
            d.u64(3);
            d.str(&v.class)
        }
    }
    (spec, r, d.finish())
}

pub fn worker(scn: &dyn Scenario, tier: Tier, seed: u64, w: u64, nw: u64, total: u64, wallcap: Duration) -> WorkerOut {
    let t0 = Instant::now();
    let mut st = Stats::default();
    let mut out = WorkerOut::default();
    let all_digests = env_u64("VERIF_ALL_DIGESTS", 0) == 1;
    let trace_idx = env_u64("VERIF_TRACE_IDX", 0) == 1;
    let mut idx = w;
    while idx < total {
        if t0.elapsed() > wallcap {
            out.timed_out = true;
            break;
        }
        if trace_idx {
            use std::io::Write;
            println!("IDX {}", idx);
            std::io::stdout().flush().ok();
        }
        RUN_IDX.store(idx, std::sync::atomic::Ordering::Relaxed);
        let (spec, r, dg) = one_run(scn, tier, seed, idx, &mut st);
        out.runs += 1;
        if all_digests || (idx % DIGEST_STRIDE == 0 && out.digests.len() < 4000) {
            out.digests.push((idx, dg));
        }
        if out.samples.len() < 1 && idx % 7 == 3 {
            out.samples.push(spec.clone());
        }
        match r {
            RunEnd::Ok => {}
            RunEnd::Discard(reason) => {
                if reason.starts_with("HARNESS_PANIC") {
                    out.harness_errors.push(format!("run {}: {}", idx, reason));
                    if out.harness_errors.len() > 5 {
                        break;
                    }
                } else if reason.starts_with("SUT_PANIC") {
                    st.count("discard:sut_panic");
                } else {
                    st.count(&format!("discard:{}", reason));
                }
            }
            RunEnd::Violation(v) => {
                if out.found.iter().any(|f| f.class == v.class) && out.found.len() >= 1 {
                    st.count("violations_not_minimised");
                } else {
                    let start = match &v.narrowed {
                        Some(n) => (**n).clone(),
                        None => spec.clone(),
                    };
                    let (ms, mv, steps) = minimise(scn, &start, &v, Duration::from_secs(20));
                    out.found.push(Found {
                        idx,
                        class: mv.class,
                        key: mv.key,
                        detail: mv.detail,
                        spec: ms,
                        shrink_steps: steps,
                        original_ops: spec.ops.len(),
                    });
                }
                if out.found.len() >= 3 {
                    break;
                }
            }
        }
        RUN_IDX.store(u64::MAX, std::sync::atomic::Ordering::Relaxed);
        idx += nw;
    }
    out.evals = st.evals;
    out.counters = st.counters;
    out.sigs = st.sigs.into_iter().collect();
    out.sim_time_ns = st.sim_time_ns.to_string();
    out
}

// ------------------------------------------------------------------------------------------
// known findings
// ------------------------------------------------------------------------------------------

pub struct KnownFinding {
    pub property: String,
    pub class: String,
    pub key: String,
    pub text: String,
}

/// Lines of the form `finding: property=C13 class=<class> key=<key> <free text>`.
/// `fixed:` lines are documentation only and suppress nothing.
pub fn load_known_findings() -> Vec<KnownFinding> {
    let p = verif_dir().join("KNOWN_FINDINGS.txt");
    let mut v = Vec::new();
    if let Ok(s) = std::fs::read_to_string(p) {
        for line in s.lines() {
            let line = line.trim();
            if let Some(rest) = line.strip_prefix("finding:") {
                let mut property = String::new();
                let mut class = String::new();
                let mut key = String::new();
                for tok in rest.split_whitespace() {
                    if let Some(x) = tok.strip_prefix("property=") {
                        property = x.to_string();
                    } else if let Some(x) = tok.strip_prefix("class=") {
                        class = x.to_string();
                    } else if let Some(x) = tok.strip_prefix("key=") {
                        key = x.to_string();
                    }
                }
                if !property.is_empty() && !class.is_empty() {
                    v.push(KnownFinding { property, class, key, text: rest.trim().to_string() });
                }
            }
        }
    }
    v
}

fn known(kf: &[KnownFinding], prop: &str, class: &str, key: &str) -> Option<String> {
    kf.iter()
        .find(|k| k.property == prop && k.class == class && k.key == key)
        .map(|k| k.text.clone())
}

// ------------------------------------------------------------------------------------------
// replay files
// ------------------------------------------------------------------------------------------

#[derive(Serialize, Deserialize, Clone, Debug)]
pub struct ReplayFile {
    pub property: String,
    pub class: String,
    pub key: String,
    pub detail: String,
    pub verif_seed: u64,
    pub run_index: u64,
    pub tier: String,
    pub shrink_steps: u64,
    pub spec: Spec,
    /// set when the violation only shows after the runs that preceded it in its worker process
    /// (process-wide state): replay = re-execute runs w, w+nw, ... up to `upto` in one fresh process
    #[serde(default)]
    pub slice: Option<SliceReplay>,
    /// set when the violation reproduced only in some fresh processes (the code under test behaves
    /// differently from process to process, e.g. depends on addresses): `./check --replay` then
    /// tries up to this many fresh processes
    #[serde(default)]
    pub attempts: u32,
    /// the run was found in a worker whose stderr cannot be written (/dev/full); replays use the same
    #[serde(default)]
    pub stderr_full: bool,
}

#[derive(Serialize, Deserialize, Clone, Debug)]
pub struct SliceReplay {
    pub w: u64,
    pub nw: u64,
    pub upto: u64,
}

/// `rngsim replay <file>`: exit 1 + VIOLATION line if the spec violates the property again.
pub fn replay(scn_of: &dyn Fn(&str) -> Option<Box<dyn Scenario>>, path: &str) -> i32 {
    let txt = match std::fs::read_to_string(path) {
        Ok(t) => t,
        Err(e) => {
            eprintln!("cannot read {}: {}", path, e);
            return 2;
        }
    };
    let rf: ReplayFile = match serde_json::from_str(&txt) {
        Ok(r) => r,
        Err(e) => {
            eprintln!("cannot parse {}: {}", path, e);
            return 2;
        }
    };
    let scn = match scn_of(&rf.property) {
        Some(s) => s,
        None => {
            eprintln!("unknown property {}", rf.property);
            return 2;
        }
    };
    let mut st = Stats::default();
    let r = if let Some(sl) = &rf.slice {
        // the violation needs the process history: re-execute the preceding runs of its worker
        let tier = if rf.tier == "thorough" { Tier::Thorough } else { Tier::Quick };
        let mut last = RunEnd::Ok;
        let mut idx = sl.w;
        while idx <= sl.upto {
            let (_, r, _) = one_run(scn.as_ref(), tier, rf.verif_seed, idx, &mut st);
            if idx == sl.upto {
                last = r;
            }
            idx += sl.nw;
        }
        println!("replay: re-executed runs {}, {}+{}, ... , {} in one process", sl.w, sl.w, sl.nw, sl.upto);
        last
    } else {
        execute_guarded(scn.as_ref(), &rf.spec, &mut st)
    };
    match r {
        RunEnd::Violation(v) => {
            println!("replay: class={} key={} detail={}", v.class, v.key, v.detail);
            println!("replay: same_class={}", v.class == rf.class);
            println!("VIOLATION property={} replay={}", rf.property, path);
            1
        }
        RunEnd::Ok => {
            println!("replay: no violation (expected class {})", rf.class);
            0
        }
        RunEnd::Discard(s) => {
            println!("replay: run discarded: {}", s);
            if s.starts_with("HARNESS_PANIC") {
                2
            } else {
                0
            }
        }
    }
}

// ------------------------------------------------------------------------------------------
// parent
// ------------------------------------------------------------------------------------------

pub struct ParentResult {
    pub exit: i32,
}

pub fn parent(scn: &dyn Scenario, tier: Tier, seed: u64) -> i32 {
    let t0 = Instant::now();
    let id = scn.id();
    println!("VERIF_SEED={} property={} tier={}", seed, id, tier.name());
    let nw = env_u64("VERIF_WORKERS", 16).max(1);
    let total = env_u64("VERIF_RUNS", scn.runs(tier));
    let wallcap = env_u64("VERIF_WALLCAP", if tier == Tier::Quick { 150 } else { 1500 });
    let exe = std::env::current_exe().expect("current_exe");

    let (outs, mut harness_errors, died) = spawn_workers_x(&exe, id, tier, seed, nw, total, wallcap, false);
    // A worker killed by a signal (stack overflow, abort): for C14 that is a violation - find the
    // run, shrink it with fresh processes, report it. Other properties cannot decide anything then.
    let mut crash_lines: Vec<String> = Vec::new();
    // (the functional properties as well: an operation that kills the process did not return what they demand)
    let crash_counts = matches!(id, "C14" | "C05" | "C08" | "C09" | "C10" | "C11" | "C12" | "C13" | "C16" | "C17" | "C19");
    if crash_counts && !died.is_empty() {
        let replays = verif_dir().join("replays");
        std::fs::create_dir_all(&replays).ok();
        for w in died.iter().take(3) {
            if let Some(idx) = crash_hunt(&exe, id, tier, seed, *w, nw, total) {
                let mut rng = Prng::new(run_seed(seed, id, idx));
                let spec = generate(scn, &mut rng, tier);
                let path = replays.join(format!("{}-{}-{}.json", id, seed, idx));
                let mut rf = ReplayFile {
                    property: id.to_string(),
                    class: format!("{}/crash", id),
                    key: format!("{}:{}", spec.kind.map(|k| k.name()).unwrap_or("?"), spec.variant),
                    detail: format!("run {} kills the process (stack overflow / abort) instead of returning", idx),
                    verif_seed: seed,
                    run_index: idx,
                    tier: tier.name().to_string(),
                    shrink_steps: 0,
                    spec: spec.clone(),
                    slice: None,
            attempts: 0,
            stderr_full: false,
                };
                let fate = fresh_process_fate(&exe, &rf, &path);
                if fate == Fate::Returns {
                    continue;
                }
                if fate == Fate::Hangs {
                    rf.class = format!("{}/hang", id);
                    rf.detail = format!("run {} does not return: an operation is still running {} s after it started although every clock it reads keeps advancing (deadlock or endless loop)", idx, run_limit_s());
                }
                // shrink with fresh processes (the executor cannot survive the crash itself)
                let t_shrink = Instant::now();
                'outer: loop {
                    for c in scn.shrink(&rf.spec) {
                        if t_shrink.elapsed() > Duration::from_secs(40) {
                            break 'outer;
                        }
                        let mut cand = rf.clone();
                        cand.spec = c;
                        cand.shrink_steps += 1;
                        let tmp = replays.join(format!("{}-{}-{}.cand.json", id, seed, idx));
                        if fate == Fate::Killed && crashes_in_fresh_process(&exe, &cand, &tmp) {
                            rf = cand;
                            std::fs::remove_file(&tmp).ok();
                            continue 'outer;
                        }
                        std::fs::remove_file(&tmp).ok();
                    }
                    break;
                }
                std::fs::write(&path, serde_json::to_string_pretty(&rf).unwrap()).ok();
                println!("violation: class={} key={} run={} detail={}", rf.class, rf.key, idx, rf.detail);
                crash_lines.push(format!("VIOLATION property={} replay={}", id, path.display()));
                harness_errors.retain(|e| !e.starts_with(&format!("worker {} exited", w)));
            }
        }
    }

    // merge
    let mut st = Stats::default();
    let mut runs = 0u64;
    let mut found: Vec<Found> = Vec::new();
    let mut samples: Vec<Spec> = Vec::new();
    let mut digests: Vec<(u64, u64)> = Vec::new();
    let mut timed_out = false;
    for o in &outs {
        runs += o.runs;
        st.evals += o.evals;
        for (k, v) in &o.counters {
            st.add(k, *v);
        }
        for s in &o.sigs {
            st.sigs.insert(*s);
        }
        st.sim_time_ns += o.sim_time_ns.parse::<u128>().unwrap_or(0);
        found.extend(o.found.iter().cloned());
        if samples.len() < 3 {
            samples.extend(o.samples.iter().cloned());
        }
        digests.extend(o.digests.iter().cloned());
        harness_errors.extend(o.harness_errors.iter().cloned());
        timed_out |= o.timed_out;
    }
    samples.truncate(3);
    found.sort_by_key(|f| f.idx);
    digests.sort();

    // determinism self-check: re-execute the sampled runs in THIS process (other process,
    // other order of surrounding runs) and compare the event-log digests.
    let mut compared = 0u64;
    let mut mismatches = 0u64;
    {
        let cap = Instant::now();
        let mut st2 = Stats::default();
        for (idx, dg) in &digests {
            if cap.elapsed() > Duration::from_secs(if tier == Tier::Quick { 10 } else { 60 }) {
                break;
            }
            let (_, _, d2) = one_run(scn, tier, seed, *idx, &mut st2);
            compared += 1;
            if d2 != *dg {
                mismatches += 1;
                harness_errors.push(format!("nondeterminism: run {} digest {:x} vs {:x}", idx, dg, d2));
            }
        }
    }

    // violations -> replay files, confirmed in a fresh process
    let kf = load_known_findings();
    let mut violation_lines = Vec::new();
    let mut known_lines = Vec::new();
    let mut reported_classes: Vec<String> = Vec::new();
    let replays = verif_dir().join("replays");
    for f in &found {
        if reported_classes.contains(&f.class) {
            continue;
        }
        reported_classes.push(f.class.clone());
        std::fs::create_dir_all(&replays).ok();
        let path = replays.join(format!("{}-{}-{}.json", id, seed, f.idx));
        let rf = ReplayFile {
            property: id.to_string(),
            class: f.class.clone(),
            key: f.key.clone(),
            detail: f.detail.clone(),
            verif_seed: seed,
            run_index: f.idx,
            tier: tier.name().to_string(),
            shrink_steps: f.shrink_steps,
            spec: f.spec.clone(),
            slice: None,
            attempts: 0,
            stderr_full: stderr_is_full(f.idx % nw),
        };
        std::fs::write(&path, serde_json::to_string_pretty(&rf).unwrap()).expect("write replay");
        let out = Command::new(&exe)
            .args(["replay", path.to_str().unwrap()])
            .stdin(Stdio::null())
            .stderr(replay_stderr(rf.stderr_full))
            .output()
            .expect("spawn replay");
        let mut reproduced = out.status.code() == Some(1);
        if !reproduced {
            // Not reproducible from the spec alone: does it reproduce with the runs that preceded it
            // in its worker process? Then the code under test keeps process-wide state, and the
            // replay is that slice of runs.
            let mut rf2 = rf.clone();
            rf2.slice = Some(SliceReplay { w: f.idx % nw, nw, upto: f.idx });
            rf2.detail = format!("{} [only after the preceding runs of the same process: the code under test keeps process-wide state]", rf2.detail);
            std::fs::write(&path, serde_json::to_string_pretty(&rf2).unwrap()).expect("write replay");
            let out2 = Command::new(&exe).args(["replay", path.to_str().unwrap()]).stdin(Stdio::null()).stderr(replay_stderr(rf.stderr_full)).output().expect("spawn replay");
            if out2.status.code() == Some(1) && String::from_utf8_lossy(&out2.stdout).contains("same_class=true") {
                reproduced = true;
            } else {
                std::fs::write(&path, serde_json::to_string_pretty(&rf).unwrap()).expect("write replay");
            }
        }
        if !reproduced {
            // Neither the run alone nor its slice: is the code under test itself nondeterministic from
            // process to process (address-space layout, process id, ...)? Try more fresh processes.
            let mut hits = 0;
            const TRIES: u32 = 6;
            for _ in 0..TRIES {
                let o = Command::new(&exe).args(["replay", path.to_str().unwrap()]).stdin(Stdio::null()).stderr(replay_stderr(rf.stderr_full)).output().expect("spawn replay");
                if o.status.code() == Some(1) {
                    hits += 1;
                }
            }
            if hits > 0 {
                let mut rf3 = rf.clone();
                rf3.attempts = 4 * TRIES;
                rf3.detail = format!("{} [reproduced in {} of {} further fresh processes: the code under test behaves differently from process to process]", rf3.detail, hits, TRIES);
                std::fs::write(&path, serde_json::to_string_pretty(&rf3).unwrap()).expect("write replay");
                reproduced = true;
            }
        }
        if !reproduced {
            harness_errors.push(format!(
                "violation {} (run {}) did not reproduce from its replay file in a fresh process",
                f.class, f.idx
            ));
            continue;
        }
        if let Some(text) = known(&kf, id, &f.class, &f.key) {
            known_lines.push(format!("KNOWN-FINDING: property={} {}", id, text));
        } else {
            println!("violation: class={} key={} run={} detail={}", f.class, f.key, f.idx, f.detail);
            violation_lines.push(format!("VIOLATION property={} replay={}", id, path.display()));
        }
    }

    // probes that must have fired
    let mut missing = Vec::new();
    if !timed_out && env_u64("VERIF_RUNS", 0) == 0 {
        for p in scn.required_probes(tier) {
            if st.counters.get(p).copied().unwrap_or(0) == 0 {
                missing.push(p.to_string());
            }
        }
    }
    if !missing.is_empty() && violation_lines.is_empty() && crash_lines.is_empty() {
        harness_errors.push(format!("required probes never fired: {:?}", missing));
    }

    let wall = t0.elapsed().as_secs_f64();
    let mut faults = BTreeMap::new();
    let mut probes = BTreeMap::new();
    let mut discards = BTreeMap::new();
    let mut other = BTreeMap::new();
    for (k, v) in &st.counters {
        if let Some(x) = k.strip_prefix("fault:") {
            faults.insert(x.to_string(), *v);
        } else if let Some(x) = k.strip_prefix("probe:") {
            probes.insert(x.to_string(), *v);
        } else if let Some(x) = k.strip_prefix("discard:") {
            discards.insert(x.to_string(), *v);
        } else {
            other.insert(k.clone(), *v);
        }
    }
    let evals = st.evals.max(runs);
    let ev = json!({
        "property_id": id,
        "tier": tier.name(),
        "seed": seed,
        "level": scn.level(),
        "coverage": {
            "evaluations": evals,
            "distinct_nontrivial": st.sigs.len(),
            "rule": scn.rule(),
            "samples": samples,
            "exhaustive": scn.exhaustive(),
            "runs": runs,
            "run_index_range": [0, total],
            "runs_per_hour": if wall > 0.0 { (runs as f64 / wall * 3600.0) as u64 } else { 0 },
            "evaluations_per_hour": if wall > 0.0 { (evals as f64 / wall * 3600.0) as u64 } else { 0 },
            "simulated_time_ns": st.sim_time_ns.to_string(),
            "faults_fired": faults,
            "probes": probes,
            "discarded": discards,
            "counters": other,
            "components": scn.components(),
            "determinism_selfcheck": {"runs_compared": compared, "mismatches": mismatches,
                "how": "sampled runs re-executed in the parent process and event-log digests compared with the worker's"},
            "workers": nw,
            "wallcap_hit": timed_out,
            "known_findings_matched": known_lines.len(),
        },
        "assumptions": scn.assumptions(),
        "wall_s": wall,
        "violations": violation_lines.len() + crash_lines.len(),
    });
    let evdir = verif_dir().join("evidence");
    std::fs::create_dir_all(&evdir).ok();
    std::fs::write(evdir.join(format!("{}.json", id)), serde_json::to_string_pretty(&ev).unwrap())
        .expect("write evidence");

    println!(
        "{}: runs={} evaluations={} distinct_signatures={} wall={:.1}s determinism_selfcheck={}/{} mismatches",
        id,
        runs,
        evals,
        st.sigs.len(),
        wall,
        mismatches,
        compared
    );
    for l in &known_lines {
        println!("{}", l);
    }
    for l in violation_lines.iter().chain(crash_lines.iter()) {
        println!("{}", l);
    }
    if !violation_lines.is_empty() || !crash_lines.is_empty() {
        return 1;
    }
    if !harness_errors.is_empty() {
        for e in harness_errors.iter().take(10) {
            eprintln!("HARNESS-ERROR: {}", e);
        }
        return 2;
    }
    println!("{}: OK", id);
    0
}


/// Spawn `nw` worker processes of `exe` and collect their outputs.
pub fn spawn_workers(exe: &std::path::Path, id: &str, tier: Tier, seed: u64, nw: u64, total: u64, wallcap: u64, all_digests: bool) -> (Vec<WorkerOut>, Vec<String>) {
    let (o, e, _) = spawn_workers_x(exe, id, tier, seed, nw, total, wallcap, all_digests);
    (o, e)
}

/// as `spawn_workers`, additionally returning the numbers of the workers that died (killed by a
/// signal: stack overflow, abort, ...) instead of finishing
pub fn spawn_workers_x(exe: &std::path::Path, id: &str, tier: Tier, seed: u64, nw: u64, total: u64, wallcap: u64, all_digests: bool) -> (Vec<WorkerOut>, Vec<String>, Vec<u64>) {
    let mut children = Vec::new();
    for w in 0..nw {
        let mut cmd = Command::new(exe);
        cmd.args([
            "worker",
            id,
            tier.name(),
            &seed.to_string(),
            &w.to_string(),
            &nw.to_string(),
            &total.to_string(),
            &wallcap.to_string(),
        ])
        .stdin(Stdio::null())
        .stdout(Stdio::piped())
        .stderr(worker_stderr(w));
        if all_digests {
            cmd.env("VERIF_ALL_DIGESTS", "1");
        }
        children.push(cmd.spawn().expect("spawn worker"));
    }
    let mut outs: Vec<WorkerOut> = Vec::new();
    let mut harness_errors: Vec<String> = Vec::new();
    let mut died: Vec<u64> = Vec::new();
    for (w, mut ch) in children.into_iter().enumerate() {
        let mut s = String::new();
        ch.stdout.take().unwrap().read_to_string(&mut s).ok();
        let status = ch.wait().expect("wait");
        if !status.success() {
            if status.code().is_none() || status.code() == Some(134) || status.code() == Some(4) {
                // killed by a signal, aborted, or given up by its own hang monitor (exit 4)
                died.push(w as u64);
            }
            harness_errors.push(format!("worker {} exited with {:?}", w, status));
            continue;
        }
        match s.lines().rev().find(|l| l.starts_with('{')).map(serde_json::from_str::<WorkerOut>) {
            Some(Ok(o)) => outs.push(o),
            _ => harness_errors.push(format!("worker {}: unparsable output", w)),
        }
    }
    (outs, harness_errors, died)
}

/// The standard error stream is part of a process's environment: every second worker runs with a
/// stderr that cannot be written (`/dev/full`: every write fails with ENOSPC), as under a full disk
/// behind `2>file`. A library that prints there must not turn that into a panic. (The simulator's own
/// messages from workers are best-effort.)
pub fn stderr_is_full(w: u64) -> bool {
    w % 2 == 1
}
pub fn worker_stderr(w: u64) -> Stdio {
    if stderr_is_full(w) {
        if let Ok(f) = std::fs::OpenOptions::new().write(true).open("/dev/full") {
            return Stdio::from(f);
        }
    }
    Stdio::inherit()
}
fn replay_stderr(full: bool) -> Stdio {
    if full {
        if let Ok(f) = std::fs::OpenOptions::new().write(true).open("/dev/full") {
            return Stdio::from(f);
        }
    }
    Stdio::null()
}

/// Re-run the slice of a worker that died, with the run index printed before every run: the last
/// index printed is the run during which the process was killed.
pub fn crash_hunt(exe: &std::path::Path, id: &str, tier: Tier, seed: u64, w: u64, nw: u64, total: u64) -> Option<u64> {
    let out = output_with_timeout(
        Command::new(exe)
            .args(["worker", id, tier.name(), &seed.to_string(), &w.to_string(), &nw.to_string(), &total.to_string(), "3600"])
            .env("VERIF_TRACE_IDX", "1"),
        4000,
    )?;
    if out.status.success() {
        return None;
    }
    String::from_utf8_lossy(&out.stdout).lines().rev().find_map(|l| l.strip_prefix("IDX ").and_then(|x| x.trim().parse().ok()))
}

/// true when executing `spec` (as a replay file) in a fresh process kills the process
pub fn crashes_in_fresh_process(exe: &std::path::Path, rf: &ReplayFile, path: &std::path::Path) -> bool {
    fresh_process_fate(exe, rf, path) != Fate::Returns
}

#[derive(Clone, Copy, PartialEq, Debug)]
pub enum Fate {
    Returns,
    Killed,
    Hangs,
}

/// What happens to a fresh process that executes this spec: it returns, it is killed (stack overflow,
/// abort), or it is still running after the per-run limit (a deadlock, an endless loop).
pub fn fresh_process_fate(exe: &std::path::Path, rf: &ReplayFile, path: &std::path::Path) -> Fate {
    std::fs::write(path, serde_json::to_string_pretty(rf).unwrap()).ok();
    match output_with_timeout(Command::new(exe).args(["replay", path.to_str().unwrap()]), run_limit_s() + 15) {
        None => Fate::Hangs,
        Some(o) => {
            if o.status.code().is_none() || o.status.code() == Some(134) {
                Fate::Killed
            } else {
                Fate::Returns
            }
        }
    }
}

// ------------------------------------------------------------------------------------------
// C18: the same corpus through several builds of this harness
// ------------------------------------------------------------------------------------------

/// `bins`: (configuration name, path of rngsim built in that configuration)
pub fn parent_c18(scn: &dyn Scenario, tier: Tier, seed: u64, bins: &[(String, String)]) -> i32 {
    let t0 = Instant::now();
    let id = scn.id();
    println!("VERIF_SEED={} property={} tier={} configurations={}", seed, id, tier.name(), bins.len());
    let nw = env_u64("VERIF_WORKERS", 16).max(1);
    let total = env_u64("VERIF_RUNS", scn.runs(tier));
    let wallcap = env_u64("VERIF_WALLCAP", if tier == Tier::Quick { 150 } else { 1500 });
    let mut harness_errors: Vec<String> = Vec::new();
    let mut per_cfg: Vec<(String, BTreeMap<u64, u64>)> = Vec::new();
    let mut st = Stats::default();
    let mut samples: Vec<Spec> = Vec::new();
    let mut runs_total = 0u64;
    let mut per_cfg_stats = BTreeMap::new();
    let mut crashed_runs: Vec<(u64, String)> = Vec::new();
    for (ci, (name, path)) in bins.iter().enumerate() {
        let tc = Instant::now();
        let (outs, errs, died) = spawn_workers_x(std::path::Path::new(path), id, tier, seed, nw, total, wallcap, true);
        for w in &died {
            // the run that kills this configuration; whether the others survive it is decided below
            if let Some(idx) = crash_hunt(std::path::Path::new(path), id, tier, seed, *w, nw, total) {
                crashed_runs.push((idx, name.clone()));
            }
        }
        harness_errors.extend(errs.into_iter().filter(|e| !(e.contains("exited with") && !died.is_empty())).map(|e| format!("[{}] {}", name, e)));
        let mut m = BTreeMap::new();
        let mut runs = 0;
        let mut panics = 0;
        for o in &outs {
            runs += o.runs;
            for (i, d) in &o.digests {
                m.insert(*i, *d);
            }
            harness_errors.extend(o.harness_errors.iter().map(|e| format!("[{}] {}", name, e)));
            panics += o.counters.get("probe:panic_marker").copied().unwrap_or(0);
            if o.timed_out {
                harness_errors.push(format!("[{}] wall-clock cap hit; the corpus was not completed", name));
            }
            if ci == 0 {
                st.evals += o.evals;
                for (k, v) in &o.counters {
                    st.add(k, *v);
                }
                for s in &o.sigs {
                    st.sigs.insert(*s);
                }
                if samples.len() < 2 {
                    samples.extend(o.samples.iter().cloned());
                }
            }
        }
        runs_total += runs;
        per_cfg_stats.insert(name.clone(), json!({"runs": runs, "panic_markers": panics, "wall_s": tc.elapsed().as_secs_f64()}));
        per_cfg.push((name.clone(), m));
    }
    samples.truncate(2);
    // compare every configuration with the first
    let mut diffs: Vec<(u64, String, String)> = Vec::new();
    if let Some((base_name, base)) = per_cfg.first() {
        for (name, m) in per_cfg.iter().skip(1) {
            if m.len() != base.len() {
                harness_errors.push(format!("configuration {} produced {} digests, {} produced {}", name, m.len(), base_name, base.len()));
            }
            for (i, d) in base {
                if let Some(d2) = m.get(i) {
                    if d2 != d {
                        diffs.push((*i, base_name.clone(), name.clone()));
                    }
                }
            }
        }
    }
    // extra corpus: explicit crafted specs generated here (default feature set) and executed by
    // every configuration
    let n_extra = if tier == Tier::Quick { 300 } else { 3000 };
    let extra = crate::props::c18::gen_extra_corpus(seed, n_extra);
    let replays_dir = verif_dir().join("replays");
    std::fs::create_dir_all(&replays_dir).ok();
    let extra_path = replays_dir.join(format!("C18-extra-corpus-{}.json", seed));
    let mut extra_diffs: Vec<(usize, String, String)> = Vec::new();
    if !extra.is_empty() {
        std::fs::write(&extra_path, serde_json::to_string(&extra).unwrap()).expect("write extra corpus");
        let mut per: Vec<(String, Vec<u64>)> = Vec::new();
        for (name, bin) in bins.iter() {
            let mut digs = vec![0u64; extra.len()];
            let mut from = 0usize;
            while from < extra.len() {
                let out = Command::new(bin).args(["corpus-file", extra_path.to_str().unwrap(), &from.to_string()]).stdin(Stdio::null()).stderr(Stdio::null()).output();
                let out = match out {
                    Ok(o) => o,
                    Err(e) => {
                        harness_errors.push(format!("[{}] corpus-file: {}", name, e));
                        break;
                    }
                };
                let mut running: Option<usize> = None;
                for l in String::from_utf8_lossy(&out.stdout).lines() {
                    let mut it = l.split_whitespace();
                    match (it.next(), it.next(), it.next()) {
                        (Some("RUN"), Some(i), _) => running = i.parse().ok(),
                        (Some("DIG"), Some(i), Some(d)) => {
                            if let (Ok(i), Ok(d)) = (i.parse::<usize>(), d.parse::<u64>()) {
                                digs[i] = d;
                                running = None;
                            }
                        }
                        _ => {}
                    }
                }
                if out.status.success() {
                    break;
                }
                match running {
                    Some(i) => {
                        digs[i] = 0xDEAD_DEAD; // the process was killed during spec i
                        from = i + 1;
                    }
                    None => {
                        harness_errors.push(format!("[{}] corpus-file exited with {:?}", name, out.status));
                        break;
                    }
                }
            }
            per.push((name.clone(), digs));
        }
        runs_total += (extra.len() * bins.len()) as u64;
        if let Some((base_name, base)) = per.first() {
            for (name, d) in per.iter().skip(1) {
                for i in 0..extra.len() {
                    if d[i] != base[i] && !extra_diffs.iter().any(|x| x.0 == i) {
                        extra_diffs.push((i, base_name.clone(), name.clone()));
                    }
                }
            }
        }
    }
    // a run that kills one configuration is compared like any other: the marker is "the process died"
    for (idx, cfg) in &crashed_runs {
        let other = bins.iter().find(|b| b.0 != *cfg).map(|b| b.0.clone()).unwrap_or_default();
        diffs.push((*idx, other, cfg.clone()));
    }
    diffs.sort();
    let mut violation_lines = Vec::new();
    let mut known_lines = Vec::new();
    let kf = load_known_findings();
    let replays = verif_dir().join("replays");
    let mut seen_idx: Vec<u64> = Vec::new();
    let mut tried_idx: Vec<u64> = Vec::new();
    for (idx, a, b) in &diffs {
        if seen_idx.contains(idx) || seen_idx.len() >= 3 || tried_idx.len() >= 24 || tried_idx.contains(idx) {
            continue;
        }
        tried_idx.push(*idx);
        seen_idx.push(*idx);
        // regenerate the spec of that run and locate the first differing operation by running it
        // in both configurations
        let mut rng = Prng::new(run_seed(seed, id, *idx));
        let spec = generate(scn, &mut rng, tier);
        std::fs::create_dir_all(&replays).ok();
        let path = replays.join(format!("{}-{}-{}.json", id, seed, idx));
        let pa = bins.iter().find(|x| x.0 == *a).map(|x| x.1.clone()).unwrap_or_default();
        let pb = bins.iter().find(|x| x.0 == *b).map(|x| x.1.clone()).unwrap_or_default();
        let mut rf = ReplayFile {
            property: id.to_string(),
            class: "C18/digest_differs".into(),
            key: format!("{}:{}", spec.kind.map(|k| k.name()).unwrap_or("?"), spec.variant),
            detail: format!("run {} yields different outputs in configurations {} and {}", idx, a, b),
            verif_seed: seed,
            run_index: *idx,
            tier: tier.name().to_string(),
            shrink_steps: 0,
            spec: spec.clone(),
            slice: None,
            attempts: 0,
            stderr_full: false,
        };
        std::fs::write(&path, serde_json::to_string_pretty(&rf).unwrap()).expect("write replay");
        let per_op = |bin: &str| -> Vec<u64> {
            output_with_timeout(Command::new(bin).args(["corpus-one", path.to_str().unwrap()]), run_limit_s() + 15)
                .or_else(|| {
                    // still running after the limit: the run hangs in this configuration (counted like a kill)
                    Some(std::process::Output { status: std::os::unix::process::ExitStatusExt::from_raw(9), stdout: Vec::new(), stderr: Vec::new() })
                })
                .map(|o| {
                    if o.status.code().is_none() || o.status.code() == Some(134) {
                        // the process was killed while executing this spec
                        return vec![0xDEAD_DEAD];
                    }
                    String::from_utf8_lossy(&o.stdout).split_whitespace().filter_map(|t| t.parse::<u64>().ok()).collect()
                })
                .unwrap_or_default()
        };
        let (mut va, mut vb) = (per_op(&pa), per_op(&pb));
        let (mut a, mut b) = (a.clone(), b.clone());
        if va == vb && va == vec![0xDEAD_DEAD] {
            // both of these configurations die on the run: look for one that survives it
            for (name, bin) in bins.iter() {
                let v = per_op(bin);
                if v != va {
                    a = name.clone();
                    va = v;
                    break;
                }
            }
            let _ = &mut vb;
            let _ = &mut b;
        }
        let (a, b) = (&a, &b);
        if va == vb && va == vec![0xDEAD_DEAD] {
            // the run kills the process in EVERY configuration: the same behaviour everywhere, so nothing for
            // this property to report (C14 reports the crash itself)
            st.count("probe:run_kills_every_configuration");
            seen_idx.pop();
            continue;
        }
        if va == vb {
            harness_errors.push(format!("digest difference of run {} between {} and {} did not reproduce in fresh processes", idx, a, b));
            continue;
        }
        if va == vec![0xDEAD_DEAD] || vb == vec![0xDEAD_DEAD] {
            rf.class = "C18/crash_in_some_configurations".into();
            rf.detail = format!("run {} kills the process in configuration {} and returns values in {}", idx, if va == vec![0xDEAD_DEAD] { a } else { b }, if va == vec![0xDEAD_DEAD] { b } else { a });
            std::fs::write(&path, serde_json::to_string_pretty(&rf).unwrap()).expect("write replay");
        }
        // minimise: cut the history after the first differing operation
        let first = va.iter().zip(vb.iter()).position(|(x, y)| x != y).unwrap_or(va.len().min(vb.len()));
        if first < spec.ops.len() && va.len() > 1 && vb.len() > 1 {
            rf.spec.ops.truncate(first + 1);
            rf.shrink_steps = 1;
            rf.detail = format!("{}; first differing operation: #{} {:?}", rf.detail, first, spec.ops[first]);
            std::fs::write(&path, serde_json::to_string_pretty(&rf).unwrap()).expect("write replay");
        }
        if let Some(text) = known(&kf, id, &rf.class, &rf.key) {
            known_lines.push(format!("KNOWN-FINDING: property={} {}", id, text));
        } else {
            println!("violation: class={} key={} run={} detail={}", rf.class, rf.key, idx, rf.detail);
            violation_lines.push(format!("VIOLATION property={} replay={}", id, path.display()));
        }
    }
    for (i, a, b) in extra_diffs.iter().take(3) {
        let spec = extra[*i].clone();
        let path = replays.join(format!("{}-{}-extra{}.json", id, seed, i));
        let rf = ReplayFile {
            property: id.to_string(),
            class: "C18/digest_differs".into(),
            key: format!("{}:{}", spec.kind.map(|k| k.name()).unwrap_or("?"), spec.variant),
            detail: format!("crafted corpus entry {} (a linear generator whose state has a zero word after its first operation) behaves differently in configurations {} and {}", i, a, b),
            verif_seed: seed,
            run_index: *i as u64,
            tier: tier.name().to_string(),
            shrink_steps: 0,
            spec,
            slice: None,
            attempts: 0,
            stderr_full: false,
        };
        std::fs::write(&path, serde_json::to_string_pretty(&rf).unwrap()).expect("write replay");
        if let Some(text) = known(&kf, id, &rf.class, &rf.key) {
            known_lines.push(format!("KNOWN-FINDING: property={} {}", id, text));
        } else {
            println!("violation: class={} key={} run=extra{} detail={}", rf.class, rf.key, i, rf.detail);
            violation_lines.push(format!("VIOLATION property={} replay={}", id, path.display()));
        }
    }
    let wall = t0.elapsed().as_secs_f64();
    let mut probes = BTreeMap::new();
    probes.insert("crafted_zero_word_corpus_entries".to_string(), extra.len() as u64);
    for (k, v) in &st.counters {
        probes.insert(k.trim_start_matches("probe:").to_string(), *v);
    }
    let ev = json!({
        "property_id": id,
        "tier": tier.name(),
        "seed": seed,
        "level": scn.level(),
        "coverage": {
            "evaluations": runs_total,
            "distinct_nontrivial": st.sigs.len(),
            "rule": scn.rule(),
            "samples": samples,
            "exhaustive": false,
            "runs_per_configuration": total,
            "configurations": bins.iter().map(|b| b.0.clone()).collect::<Vec<_>>(),
            "per_configuration": per_cfg_stats,
            "digest_differences": diffs.len(),
            "runs_per_hour": if wall > 0.0 { (runs_total as f64 / wall * 3600.0) as u64 } else { 0 },
            "probes": probes,
            "components": scn.components(),
            "determinism_selfcheck": {"how": "this check IS the replay-determinism check: identical corpus, per-run digests compared across builds", "runs_compared": runs_total, "mismatches": diffs.len()},
            "workers": nw,
            "known_findings_matched": known_lines.len(),
        },
        "assumptions": scn.assumptions(),
        "wall_s": wall,
        "violations": violation_lines.len(),
    });
    let evdir = verif_dir().join("evidence");
    std::fs::create_dir_all(&evdir).ok();
    std::fs::write(evdir.join(format!("{}.json", id)), serde_json::to_string_pretty(&ev).unwrap()).expect("write evidence");
    println!("{}: corpus runs={} x {} configurations, digest differences={} wall={:.1}s", id, total, bins.len(), diffs.len(), wall);
    for l in &known_lines {
        println!("{}", l);
    }
    for l in &violation_lines {
        println!("{}", l);
    }
    if !violation_lines.is_empty() {
        return 1;
    }
    if !harness_errors.is_empty() {
        for e in harness_errors.iter().take(10) {
            eprintln!("HARNESS-ERROR: {}", e);
        }
        return 2;
    }
    println!("{}: OK", id);
    0
}

/// `rngsim selftest [ID...]`: replay determinism, proven on a sample: every scenario's first N run
/// indices are executed twice, in 16 worker processes and in 3, and the per-run event-log digests
/// are compared (different process, different neighbours, different order).
pub fn selftest(scns: Vec<Box<dyn Scenario>>, seed: u64) -> i32 {
    let exe = std::env::current_exe().expect("current_exe");
    let mut bad = 0u64;
    let mut total = 0u64;
    for scn in &scns {
        let id = scn.id();
        let n: u64 = match id {
            "C19" => 400,
            "C13" | "C09" => 2_000,
            _ => 4_000,
        };
        let n = env_u64("VERIF_SELFTEST_RUNS", n);
        let mut maps: Vec<BTreeMap<u64, u64>> = Vec::new();
        for nw in [16u64, 3] {
            let (outs, errs) = spawn_workers(&exe, id, Tier::Quick, seed, nw, n, 3600, true);
            for e in errs {
                eprintln!("HARNESS-ERROR: {} nw={}: {}", id, nw, e);
                bad += 1;
            }
            let mut m = BTreeMap::new();
            for o in &outs {
                for (i, d) in &o.digests {
                    m.insert(*i, *d);
                }
                for e in &o.harness_errors {
                    eprintln!("HARNESS-ERROR: {} nw={}: {}", id, nw, e);
                    bad += 1;
                }
                for f in &o.found {
                    eprintln!("selftest: {} run {} reports violation {}", id, f.idx, f.class);
                }
            }
            maps.push(m);
        }
        let mut mism = 0;
        for (i, d) in &maps[0] {
            if maps[1].get(i) != Some(d) {
                mism += 1;
                if mism <= 3 {
                    eprintln!("selftest: {} run {} digest differs between 16 and 3 workers", id, i);
                }
            }
        }
        if maps[0].len() != maps[1].len() {
            mism += 1;
        }
        total += maps[0].len() as u64;
        bad += mism;
        println!("selftest {}: {} runs compared (16 vs 3 worker processes), {} mismatches", id, maps[0].len(), mism);
    }
    println!("selftest: {} runs compared, {} problems", total, bad);
    if bad == 0 {
        0
    } else {
        2
    }
}

/// helper for scenarios
pub fn viol(class: &str, key: impl Into<String>, detail: impl Into<String>) -> RunEnd {
    RunEnd::Violation(Violation::new(class, key, detail))
}
