//! Shrinking of a failing `Spec` while the same violation class persists.

use crate::gens::SeedSpec;
use crate::spec::{Op, RunEnd, Scenario, Spec, Stats, Violation};
use std::time::{Duration, Instant};

fn shrink_seed(s: &SeedSpec) -> Vec<SeedSpec> {
    let mut out = Vec::new();
    match s {
        SeedSpec::Bytes(b) => {
            let n = b.len();
            let mut one = vec![0u8; n];
            if n > 0 {
                one[0] = 1;
            }
            if *b != one {
                out.push(SeedSpec::Bytes(one));
            }
            let nz: Vec<usize> = (0..n).filter(|i| b[*i] != 0).collect();
            if nz.len() > 1 {
                // zero the second half of the non-zero bytes, then single bytes
                let mut c = b.clone();
                for i in &nz[nz.len() / 2..] {
                    c[*i] = 0;
                }
                out.push(SeedSpec::Bytes(c));
                for i in nz.iter().take(8) {
                    let mut c = b.clone();
                    c[*i] = 0;
                    out.push(SeedSpec::Bytes(c));
                }
            }
        }
        SeedSpec::U64(x) => {
            for c in [0u64, 1, *x >> 32, *x & 0xffff_ffff] {
                if c != *x {
                    out.push(SeedSpec::U64(c));
                }
            }
        }
        SeedSpec::FromRng(src) | SeedSpec::TryFromRng(src) => {
            let is_try = matches!(s, SeedSpec::TryFromRng(_));
            let mk = |x| if is_try { SeedSpec::TryFromRng(x) } else { SeedSpec::FromRng(x) };
            if src.zero_run > 0 {
                for z in [0, src.zero_run / 2, src.zero_run - src.zero_run / 8] {
                    if z != src.zero_run {
                        let mut c = src.clone();
                        c.zero_run = z;
                        out.push(mk(c));
                    }
                }
            }
            if !src.prefix.is_empty() {
                let mut c = src.clone();
                c.prefix.clear();
                out.push(mk(c));
                let mut c = src.clone();
                c.prefix.truncate(src.prefix.len() / 2);
                out.push(mk(c));
            }
            if src.key != 1 {
                let mut c = src.clone();
                c.key = 1;
                out.push(mk(c));
            }
            if let Some(f) = &src.fault {
                if f.torn > 0 {
                    let mut c = src.clone();
                    c.fault.as_mut().unwrap().torn = 0;
                    out.push(mk(c));
                    let mut c = src.clone();
                    c.fault.as_mut().unwrap().torn = f.torn / 2;
                    out.push(mk(c));
                }
                if f.call > 1 {
                    let mut c = src.clone();
                    c.fault.as_mut().unwrap().call = 1;
                    out.push(mk(c));
                }
            }
        }
    }
    out
}

fn shrink_op(op: &Op) -> Vec<Op> {
    match op {
        Op::Fill(n) if *n > 0 => {
            let mut v = vec![Op::Fill(0), Op::Fill(n / 2), Op::Fill(n - 1)];
            v.dedup();
            v.retain(|o| o != op);
            v
        }
        Op::SetRounds(r) if *r > 1 => vec![Op::SetRounds(1), Op::SetRounds(r / 2)],
        Op::CloneThen(inner) => vec![(**inner).clone()],
        Op::CloneFromThen(inner) => vec![Op::CloneThen(inner.clone()), (**inner).clone()],
        _ => vec![],
    }
}

pub fn generic_candidates(spec: &Spec) -> Vec<Spec> {
    let mut out = Vec::new();
    let n = spec.ops.len();
    // drop chunks of ops: halves, quarters, then single ops from the end
    if n > 1 {
        let mut chunk = n / 2;
        while chunk >= 1 {
            let mut start = 0;
            while start < n {
                let end = (start + chunk).min(n);
                let mut c = spec.clone();
                c.ops.drain(start..end);
                out.push(c);
                start = end;
            }
            if chunk == 1 {
                break;
            }
            chunk /= 2;
        }
    } else if n == 1 {
        let mut c = spec.clone();
        c.ops.clear();
        out.push(c);
    }
    // pre-advance
    if spec.pre > 0 {
        for p in [0, spec.pre / 2, spec.pre - 1] {
            if p != spec.pre {
                let mut c = spec.clone();
                c.pre = p;
                out.push(c);
            }
        }
    }
    // op arguments
    for (i, op) in spec.ops.iter().enumerate() {
        for r in shrink_op(op) {
            let mut c = spec.clone();
            c.ops[i] = r;
            out.push(c);
        }
    }
    if let Some(r) = spec.rounds {
        if r > 1 {
            let mut c = spec.clone();
            c.rounds = Some(1);
            out.push(c);
            let mut c = spec.clone();
            c.rounds = Some(r / 2);
            out.push(c);
        }
    }
    if let Some(s) = &spec.seed {
        for r in shrink_seed(s) {
            let mut c = spec.clone();
            c.seed = Some(r);
            out.push(c);
        }
    }
    if let Some(s) = &spec.seed2 {
        for r in shrink_seed(s) {
            let mut c = spec.clone();
            c.seed2 = Some(r);
            out.push(c);
        }
    }
    if let Some(cl) = &spec.clock {
        if !cl.fork_skews.is_empty() {
            let mut c = spec.clone();
            c.clock.as_mut().unwrap().fork_skews.clear();
            out.push(c);
        }
        // cut the tail of the explicit script (the benign continuation takes over)
        let len = cl.readings.len();
        if len > 1 {
            for k in [len / 2, len - len / 4, len - 1] {
                if k < len && k >= 1 {
                    let mut c = spec.clone();
                    c.clock.as_mut().unwrap().readings.truncate(k);
                    out.push(c);
                }
            }
        }
    }
    // C19: fewer schedule steps, fewer threads, fewer instances
    if !spec.sched.is_empty() {
        let m = spec.sched.len();
        let mut chunk = m / 2;
        while chunk >= 1 {
            let mut start = 0;
            while start < m {
                let end = (start + chunk).min(m);
                let mut c = spec.clone();
                c.sched.drain(start..end);
                out.push(c);
                start = end;
            }
            if chunk == 1 {
                break;
            }
            chunk /= 2;
        }
        if spec.threads > 1 {
            let mut c = spec.clone();
            c.threads = 1;
            for s in c.sched.iter_mut() {
                s.1 = 0;
            }
            out.push(c);
        }
        for i in 0..spec.insts.len() {
            if spec.insts.len() > 1 {
                let mut c = spec.clone();
                c.insts.remove(i);
                c.sched.retain(|s| s.0 as usize != i);
                for s in c.sched.iter_mut() {
                    if s.0 as usize > i {
                        s.0 -= 1;
                    }
                }
                out.push(c);
            }
        }
    }
    out
}

/// Greedy shrinking: accept a candidate when it still yields a violation of the same class.
pub fn minimise(scn: &dyn Scenario, spec: &Spec, v: &Violation, budget: Duration) -> (Spec, Violation, u64) {
    let t0 = Instant::now();
    let mut best = spec.clone();
    let mut bestv = v.clone();
    let mut tried = 0u64;
    'outer: loop {
        let cands = scn.shrink(&best);
        for c in cands {
            if t0.elapsed() > budget || tried > 20_000 {
                break 'outer;
            }
            tried += 1;
            let mut st = Stats::default();
            let r = crate::engine::execute_guarded(scn, &c, &mut st);
            if let RunEnd::Violation(v2) = r {
                if v2.class == bestv.class {
                    best = match &v2.narrowed {
                        Some(n) => (**n).clone(),
                        None => c,
                    };
                    bestv = v2;
                    continue 'outer;
                }
            }
        }
        break;
    }
    bestv.narrowed = None;
    (best, bestv, tried)
}
