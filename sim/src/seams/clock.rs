//! The clock seam: `JitterRng<F>` only ever sees time through `F: Fn() -> u64`.
//! `SimClock` is a closure over a scripted reading sequence with a cursor. Every reading comes
//! from the run's spec; no real clock is read. Cloning the closure *forks* the cursor (the clone
//! continues from the same position, optionally skewed), and registers the new cursor so the
//! simulator can observe its read count.

use crate::prng::h2;
use serde::{Deserialize, Serialize};
use std::sync::atomic::{AtomicU64, Ordering};
use std::sync::{Arc, Mutex};

#[derive(Serialize, Deserialize, Clone, Debug, PartialEq)]
pub struct ClockSpec {
    /// Explicit readings, in the order they are handed out.
    pub readings: Vec<u64>,
    /// After the explicit part the clock continues benignly: a jittery, increasing sequence
    /// that is a pure function of (tail_key, index).
    pub tail_key: u64,
    /// Skew added (wrapping) to every reading seen by the n-th fork (clone) of the clock.
    pub fork_skews: Vec<u64>,
    /// (at, len): from reading index `at` on the clock stands still for `len` readings and then goes on
    /// where it was (a frozen counter that resumes) - hundreds of thousands of readings without
    /// spelling them out
    #[serde(default)]
    pub freeze: Option<(u64, u64)>,
    /// the timer callback itself FAILS at this reading: it unwinds (as a callback that unwraps a failed system
    /// call does) instead of returning a value; the caller of the generator contains the unwind. The
    /// simulator books it like a stuck clock: the operation of THIS instance has no result.
    #[serde(default)]
    pub abort_at: Option<u64>,
}

impl ClockSpec {
    #[inline]
    pub fn reading(&self, i: u64) -> u64 {
        let i = match self.freeze {
            Some((at, len)) if i >= at => {
                if i < at.saturating_add(len) {
                    at
                } else {
                    i - len
                }
            }
            _ => i,
        };
        if (i as usize) < self.readings.len() {
            self.readings[i as usize]
        } else {
            let base = self.readings.last().copied().unwrap_or(1_000_000);
            let k = i - self.readings.len() as u64 + 1;
            base.wrapping_add(k.wrapping_mul(900))
                .wrapping_add(h2(self.tail_key, i) % 613)
        }
    }
    /// readings an operation may legitimately spend inside the frozen stretch
    pub fn freeze_len(&self) -> u64 {
        self.freeze.map(|f| f.1).unwrap_or(0)
    }
    pub fn skew(&self, fork_no: usize) -> u64 {
        self.fork_skews.get(fork_no).copied().unwrap_or(0)
    }
}

/// Payload used to abort an operation from inside the clock closure when it exceeds its read
/// budget (a clock that stays stuck). Never mistaken for a panic of the code under test.
pub struct ClockAbort;

pub struct Registry {
    pub forks: Mutex<Vec<Arc<ClockCore>>>,
}

pub struct ClockCore {
    pub spec: Arc<ClockSpec>,
    pub pos: AtomicU64,
    pub skew: u64,
    /// absolute cursor value at which the current operation is aborted
    pub cap: AtomicU64,
    pub reg: Arc<Registry>,
}

impl ClockCore {
    #[inline]
    pub fn read(&self) -> u64 {
        let i = self.pos.fetch_add(1, Ordering::Relaxed);
        if i >= self.cap.load(Ordering::Relaxed) || Some(i) == self.spec.abort_at {
            std::panic::resume_unwind(Box::new(ClockAbort));
        }
        self.spec.reading(i).wrapping_add(self.skew)
    }
    pub fn reads(&self) -> u64 {
        self.pos.load(Ordering::Relaxed)
    }
    pub fn set_cap(&self, cap: u64) {
        // a script with a frozen stretch needs that many more readings before it counts as stuck
        self.cap.store(cap.saturating_add(self.spec.freeze_len()), Ordering::Relaxed)
    }
}

pub struct ClockRef(pub Arc<ClockCore>);

impl ClockRef {
    #[inline]
    pub fn get(&self) -> u64 {
        self.0.read()
    }
}

impl Clone for ClockRef {
    fn clone(&self) -> ClockRef {
        let mut forks = self.0.reg.forks.lock().unwrap();
        let n = forks.len();
        let core = Arc::new(ClockCore {
            spec: self.0.spec.clone(),
            pos: AtomicU64::new(self.0.pos.load(Ordering::Relaxed)),
            skew: self.0.skew.wrapping_add(self.0.spec.skew(n)),
            cap: AtomicU64::new(self.0.cap.load(Ordering::Relaxed)),
            reg: self.0.reg.clone(),
        });
        forks.push(core.clone());
        ClockRef(core)
    }
}

/// A registry and the forks it lists point at each other (each fork keeps the registry to number the next
/// fork): a run that clones a generator leaves such a cycle behind, scripts included. The registries made
/// since the last call are emptied here, after the run that made them is over and its generators are gone.
static RUN_REGISTRIES: Mutex<Vec<std::sync::Weak<Registry>>> = Mutex::new(Vec::new());
pub fn release_run_registries() {
    let regs: Vec<std::sync::Weak<Registry>> = std::mem::take(&mut *RUN_REGISTRIES.lock().unwrap_or_else(|e| e.into_inner()));
    for r in regs {
        if let Some(r) = r.upgrade() {
            let forks = std::mem::take(&mut *r.forks.lock().unwrap_or_else(|e| e.into_inner()));
            drop(forks);
        }
    }
}

/// Build the root clock. Returns the handle the simulator keeps and the closure for JitterRng.
pub fn sim_clock(
    spec: Arc<ClockSpec>,
) -> (Arc<ClockCore>, impl Fn() -> u64 + Send + Sync + Clone + 'static) {
    let reg = Arc::new(Registry { forks: Mutex::new(Vec::new()) });
    RUN_REGISTRIES.lock().unwrap_or_else(|e| e.into_inner()).push(Arc::downgrade(&reg));
    let core = Arc::new(ClockCore {
        spec,
        pos: AtomicU64::new(0),
        skew: 0,
        cap: AtomicU64::new(u64::MAX),
        reg,
    });
    let r = ClockRef(core.clone());
    // `r.get()` (a method on the whole ClockRef) makes the closure capture `r` itself, so cloning
    // the closure goes through `ClockRef::clone` (the fork), not through a plain Arc clone.
    (core, move || r.get())
}

/// The model-side view of the same clock: plain cursor, no atomics, no abort.
#[derive(Clone)]
pub struct ModelClock {
    pub spec: Arc<ClockSpec>,
    pub pos: u64,
    pub skew: u64,
}
impl ModelClock {
    pub fn new(spec: Arc<ClockSpec>) -> ModelClock {
        ModelClock { spec, pos: 0, skew: 0 }
    }
    #[inline]
    pub fn read(&mut self) -> u64 {
        let v = self.spec.reading(self.pos).wrapping_add(self.skew);
        self.pos += 1;
        v
    }
    /// fork number `n` (0-based count of forks made so far in this run, over all clocks)
    pub fn fork(&self, n: usize) -> ModelClock {
        ModelClock {
            spec: self.spec.clone(),
            pos: self.pos,
            skew: self.skew.wrapping_add(self.spec.skew(n)),
        }
    }
}
