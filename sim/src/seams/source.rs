//! The entropy-source seam: what `from_rng` / `try_from_rng` read from. A scripted byte stream
//! with call and byte accounting and injected faults (clean error at call k, torn fill).

use crate::prng::h2;
use rand_core::{RngCore, TryRngCore};
use serde::{Deserialize, Serialize};
use std::fmt;

#[derive(Serialize, Deserialize, Clone, Debug, PartialEq)]
pub struct SourceFault {
    /// 1-based index of the call that fails
    pub call: u32,
    /// bytes written into the destination before the error is returned (torn fill)
    pub torn: u32,
    /// unique token carried by the error value
    pub token: u64,
}

#[derive(Serialize, Deserialize, Clone, Debug, PartialEq)]
pub struct SourceSpec {
    /// this many zero bytes come first (a stuck-at-zero source; not materialised)
    #[serde(default)]
    pub zero_run: usize,
    /// explicit bytes of the stream after the zero run
    pub prefix: Vec<u8>,
    /// continuation: byte p = low byte of H(key, p); key 0 = all zero after the prefix
    pub key: u64,
    pub fault: Option<SourceFault>,
}

impl SourceSpec {
    #[inline]
    pub fn byte(&self, p: usize) -> u8 {
        if p < self.zero_run {
            return 0;
        }
        let p = p - self.zero_run;
        if p < self.prefix.len() {
            self.prefix[p]
        } else if self.key == 0 {
            // key 0: the stream is all zero after the explicit prefix (a short key followed by nothing)
            0
        } else {
            (h2(self.key, p as u64) >> 17) as u8
        }
    }
    pub fn bytes(&self, from: usize, n: usize) -> Vec<u8> {
        (from..from + n).map(|p| self.byte(p)).collect()
    }
}

#[derive(Clone, Debug, PartialEq)]
pub struct SimError(pub u64);
impl fmt::Display for SimError {
    fn fmt(&self, f: &mut fmt::Formatter) -> fmt::Result {
        write!(f, "injected source error {:#x}", self.0)
    }
}

/// Infallible view (implements `RngCore`; ignores `fault`).
pub struct SimSource {
    pub spec: SourceSpec,
    pub pos: usize,
    pub calls: u32,
    /// (kind: 0 fill / 4 u32 / 8 u64, len)
    pub log: Vec<(u8, usize)>,
}

impl SimSource {
    pub fn new(spec: SourceSpec) -> SimSource {
        SimSource { spec, pos: 0, calls: 0, log: Vec::new() }
    }
    fn take(&mut self, dest: &mut [u8]) {
        for d in dest.iter_mut() {
            *d = self.spec.byte(self.pos);
            self.pos += 1;
        }
    }
}

impl RngCore for SimSource {
    fn next_u32(&mut self) -> u32 {
        self.calls += 1;
        self.log.push((4, 4));
        let mut b = [0u8; 4];
        self.take(&mut b);
        u32::from_le_bytes(b)
    }
    fn next_u64(&mut self) -> u64 {
        self.calls += 1;
        self.log.push((8, 8));
        let mut b = [0u8; 8];
        self.take(&mut b);
        u64::from_le_bytes(b)
    }
    fn fill_bytes(&mut self, dest: &mut [u8]) {
        self.calls += 1;
        self.log.push((0, dest.len()));
        self.take(dest);
    }
}

/// Fallible view (implements `TryRngCore` with a non-trivial error type).
pub struct FallibleSource {
    pub inner: SimSource,
    pub fired: bool,
}

impl FallibleSource {
    pub fn new(spec: SourceSpec) -> FallibleSource {
        FallibleSource { inner: SimSource::new(spec), fired: false }
    }
    fn fault_now(&self) -> Option<SourceFault> {
        match &self.inner.spec.fault {
            Some(f) if f.call == self.inner.calls + 1 => Some(f.clone()),
            _ => None,
        }
    }
}

impl TryRngCore for FallibleSource {
    type Error = SimError;
    fn try_next_u32(&mut self) -> Result<u32, SimError> {
        if let Some(f) = self.fault_now() {
            self.inner.calls += 1;
            self.fired = true;
            return Err(SimError(f.token));
        }
        Ok(self.inner.next_u32())
    }
    fn try_next_u64(&mut self) -> Result<u64, SimError> {
        if let Some(f) = self.fault_now() {
            self.inner.calls += 1;
            self.fired = true;
            return Err(SimError(f.token));
        }
        Ok(self.inner.next_u64())
    }
    fn try_fill_bytes(&mut self, dst: &mut [u8]) -> Result<(), SimError> {
        if let Some(f) = self.fault_now() {
            self.inner.calls += 1;
            self.fired = true;
            let k = (f.torn as usize).min(dst.len());
            self.inner.log.push((0, dst.len()));
            // torn fill: the first k bytes are written (and consumed), then the error.
            let (head, _) = dst.split_at_mut(k);
            self.inner.take(head);
            return Err(SimError(f.token));
        }
        self.inner.fill_bytes(dst);
        Ok(())
    }
}


/// The same fallible source with an error type that carries NOTHING (a unit struct, size 0): which
/// error came back can then only be known from the source's own record. (Code that looks at
/// `size_of::<R::Error>()` to recognise `Infallible` meets this one.)
#[derive(Clone, Copy, Debug, PartialEq)]
pub struct UnitError;
impl fmt::Display for UnitError {
    fn fmt(&self, f: &mut fmt::Formatter) -> fmt::Result {
        write!(f, "injected source error")
    }
}
pub struct FallibleSourceUnit(pub FallibleSource);
impl TryRngCore for FallibleSourceUnit {
    type Error = UnitError;
    fn try_next_u32(&mut self) -> Result<u32, UnitError> {
        self.0.try_next_u32().map_err(|_| UnitError)
    }
    fn try_next_u64(&mut self) -> Result<u64, UnitError> {
        self.0.try_next_u64().map_err(|_| UnitError)
    }
    fn try_fill_bytes(&mut self, dst: &mut [u8]) -> Result<(), UnitError> {
        self.0.try_fill_bytes(dst).map_err(|_| UnitError)
    }
}


// ------------------------------------------------------------------------------------------
// Sources whose TYPE has size zero: a handle to state that lives elsewhere (what OsRng, ThreadRng-like
// handles and `UnwrapErr<OsRng>` are). The real simulated source is parked in a thread-local slot
// for the duration of the constructor call.
// ------------------------------------------------------------------------------------------
thread_local! {
    static PARKED_SIM: std::cell::RefCell<Option<SimSource>> = const { std::cell::RefCell::new(None) };
    static PARKED_FALLIBLE: std::cell::RefCell<Option<FallibleSource>> = const { std::cell::RefCell::new(None) };
}

/// registers the slots on the calling thread (see `Spec.thread` == 3: they must outlive the exit hook)
pub fn touch_thread_locals() {
    PARKED_SIM.with(|_| ());
    PARKED_FALLIBLE.with(|_| ());
}

pub struct HandleSource;
impl HandleSource {
    pub fn park(s: SimSource) -> HandleSource {
        PARKED_SIM.with(|p| *p.borrow_mut() = Some(s));
        HandleSource
    }
    pub fn unpark(self) -> SimSource {
        PARKED_SIM.with(|p| p.borrow_mut().take()).expect("harness: parked source")
    }
}
impl RngCore for HandleSource {
    fn next_u32(&mut self) -> u32 {
        PARKED_SIM.with(|p| p.borrow_mut().as_mut().expect("harness: parked source").next_u32())
    }
    fn next_u64(&mut self) -> u64 {
        PARKED_SIM.with(|p| p.borrow_mut().as_mut().expect("harness: parked source").next_u64())
    }
    fn fill_bytes(&mut self, dest: &mut [u8]) {
        PARKED_SIM.with(|p| p.borrow_mut().as_mut().expect("harness: parked source").fill_bytes(dest))
    }
}

pub struct HandleFallible;
impl HandleFallible {
    pub fn park(s: FallibleSource) -> HandleFallible {
        PARKED_FALLIBLE.with(|p| *p.borrow_mut() = Some(s));
        HandleFallible
    }
    pub fn unpark(self) -> FallibleSource {
        PARKED_FALLIBLE.with(|p| p.borrow_mut().take()).expect("harness: parked source")
    }
}
impl TryRngCore for HandleFallible {
    type Error = SimError;
    fn try_next_u32(&mut self) -> Result<u32, SimError> {
        PARKED_FALLIBLE.with(|p| p.borrow_mut().as_mut().expect("harness: parked source").try_next_u32())
    }
    fn try_next_u64(&mut self) -> Result<u64, SimError> {
        PARKED_FALLIBLE.with(|p| p.borrow_mut().as_mut().expect("harness: parked source").try_next_u64())
    }
    fn try_fill_bytes(&mut self, dst: &mut [u8]) -> Result<(), SimError> {
        PARKED_FALLIBLE.with(|p| p.borrow_mut().as_mut().expect("harness: parked source").try_fill_bytes(dst))
    }
}
