pub mod clock;
pub mod source;
