//! Uniform, object-safe access to every generator type of the five crates under test.
//! Everything here calls the REAL code in /repo; the only simulator-owned parts are the
//! clock closure and the source RNG handed to the constructors.

use crate::seams::clock::{sim_clock, ClockAbort, ClockCore, ClockSpec};
use crate::seams::source::{FallibleSource, SimSource, SourceSpec};
use rand_core::block::{BlockRng, BlockRng64, BlockRngCore};
use rand_core::{RngCore, SeedableRng};
use serde::{Deserialize, Serialize};
use std::any::Any;
use std::cell::RefCell;
use std::panic::{catch_unwind, AssertUnwindSafe};
use std::sync::Arc;

#[derive(Serialize, Deserialize, Clone, Copy, Debug, PartialEq, Eq, PartialOrd, Ord, Hash)]
pub enum Kind {
    SplitMix64,
    Xoroshiro64Star,
    Xoroshiro64StarStar,
    Xoroshiro128Plus,
    Xoroshiro128PlusPlus,
    Xoroshiro128StarStar,
    Xoshiro128Plus,
    Xoshiro128PlusPlus,
    Xoshiro128StarStar,
    Xoshiro256Plus,
    Xoshiro256PlusPlus,
    Xoshiro256StarStar,
    Xoshiro512Plus,
    Xoshiro512PlusPlus,
    Xoshiro512StarStar,
    XorShift,
    Hc128,
    Isaac,
    Isaac64,
    Jitter,
}

pub const DET_KINDS: [Kind; 19] = [
    Kind::SplitMix64,
    Kind::Xoroshiro64Star,
    Kind::Xoroshiro64StarStar,
    Kind::Xoroshiro128Plus,
    Kind::Xoroshiro128PlusPlus,
    Kind::Xoroshiro128StarStar,
    Kind::Xoshiro128Plus,
    Kind::Xoshiro128PlusPlus,
    Kind::Xoshiro128StarStar,
    Kind::Xoshiro256Plus,
    Kind::Xoshiro256PlusPlus,
    Kind::Xoshiro256StarStar,
    Kind::Xoshiro512Plus,
    Kind::Xoshiro512PlusPlus,
    Kind::Xoshiro512StarStar,
    Kind::XorShift,
    Kind::Hc128,
    Kind::Isaac,
    Kind::Isaac64,
];

/// How next_u32 relates to the native word stream (transcribed from the statement of C05).
#[derive(Clone, Copy, Debug, PartialEq, Eq)]
pub enum U32Rule {
    Native32,
    Upper,
    Lower,
    SplitMix,
    LowThenHigh,
}

impl Kind {
    pub fn name(self) -> &'static str {
        match self {
            Kind::SplitMix64 => "SplitMix64",
            Kind::Xoroshiro64Star => "Xoroshiro64Star",
            Kind::Xoroshiro64StarStar => "Xoroshiro64StarStar",
            Kind::Xoroshiro128Plus => "Xoroshiro128Plus",
            Kind::Xoroshiro128PlusPlus => "Xoroshiro128PlusPlus",
            Kind::Xoroshiro128StarStar => "Xoroshiro128StarStar",
            Kind::Xoshiro128Plus => "Xoshiro128Plus",
            Kind::Xoshiro128PlusPlus => "Xoshiro128PlusPlus",
            Kind::Xoshiro128StarStar => "Xoshiro128StarStar",
            Kind::Xoshiro256Plus => "Xoshiro256Plus",
            Kind::Xoshiro256PlusPlus => "Xoshiro256PlusPlus",
            Kind::Xoshiro256StarStar => "Xoshiro256StarStar",
            Kind::Xoshiro512Plus => "Xoshiro512Plus",
            Kind::Xoshiro512PlusPlus => "Xoshiro512PlusPlus",
            Kind::Xoshiro512StarStar => "Xoshiro512StarStar",
            Kind::XorShift => "XorShiftRng",
            Kind::Hc128 => "Hc128Rng",
            Kind::Isaac => "IsaacRng",
            Kind::Isaac64 => "Isaac64Rng",
            Kind::Jitter => "JitterRng",
        }
    }
    pub fn id(self) -> u64 {
        self as u64
    }
    pub fn word_bits(self) -> u32 {
        use Kind::*;
        match self {
            Xoroshiro64Star | Xoroshiro64StarStar | Xoshiro128Plus | Xoshiro128PlusPlus
            | Xoshiro128StarStar | XorShift | Hc128 | Isaac => 32,
            _ => 64,
        }
    }
    pub fn seed_len(self) -> usize {
        use Kind::*;
        match self {
            SplitMix64 | Xoroshiro64Star | Xoroshiro64StarStar => 8,
            Xoroshiro128Plus | Xoroshiro128PlusPlus | Xoroshiro128StarStar | Xoshiro128Plus
            | Xoshiro128PlusPlus | Xoshiro128StarStar | XorShift => 16,
            Xoshiro256Plus | Xoshiro256PlusPlus | Xoshiro256StarStar | Hc128 | Isaac | Isaac64 => 32,
            Xoshiro512Plus | Xoshiro512PlusPlus | Xoshiro512StarStar => 64,
            Jitter => 0,
        }
    }
    /// bytes one from_rng / try_from_rng takes from the source (per draw)
    pub fn from_rng_len(self) -> usize {
        match self {
            Kind::Isaac => 1024,
            Kind::Isaac64 => 2048,
            k => k.seed_len(),
        }
    }
    /// buffered words per block (1 for the non-buffered generators)
    pub fn block_words(self) -> usize {
        match self {
            Kind::Hc128 => 16,
            Kind::Isaac | Kind::Isaac64 => 256,
            _ => 1,
        }
    }
    pub fn buffered(self) -> bool {
        self.block_words() > 1
    }
    pub fn block_bytes(self) -> usize {
        if self.buffered() {
            self.block_words() * (self.word_bits() as usize / 8)
        } else {
            8
        }
    }
    pub fn u32_rule(self) -> U32Rule {
        use Kind::*;
        match self {
            k if k.word_bits() == 32 => U32Rule::Native32,
            SplitMix64 => U32Rule::SplitMix,
            Xoroshiro128PlusPlus | Xoroshiro128StarStar => U32Rule::Lower,
            Isaac64 | Jitter => U32Rule::LowThenHigh,
            _ => U32Rule::Upper,
        }
    }
    pub fn has_eq(self) -> bool {
        !matches!(self, Kind::Isaac | Kind::Isaac64 | Kind::Jitter)
    }
    pub fn has_serde(self) -> bool {
        !matches!(self, Kind::Hc128 | Kind::Jitter)
    }
    pub fn has_jump(self) -> bool {
        use Kind::*;
        matches!(
            self,
            Xoroshiro128Plus
                | Xoroshiro128PlusPlus
                | Xoroshiro128StarStar
                | Xoshiro128Plus
                | Xoshiro128PlusPlus
                | Xoshiro128StarStar
                | Xoshiro256Plus
                | Xoshiro256PlusPlus
                | Xoshiro256StarStar
                | Xoshiro512Plus
                | Xoshiro512PlusPlus
                | Xoshiro512StarStar
        )
    }
    /// the 14 linear xoshiro-family generators + XorShiftRng: the all-zero state is absorbing
    pub fn linear(self) -> bool {
        !matches!(self, Kind::SplitMix64 | Kind::Hc128 | Kind::Isaac | Kind::Isaac64 | Kind::Jitter)
    }
    pub fn xoshiro_family(self) -> bool {
        (self as u64) <= Kind::Xoshiro512StarStar as u64
    }
    pub fn hides_debug(self) -> bool {
        matches!(self, Kind::XorShift | Kind::Hc128 | Kind::Isaac | Kind::Isaac64 | Kind::Jitter)
    }
}

#[derive(Serialize, Deserialize, Clone, Copy, Debug, PartialEq, Eq, PartialOrd, Ord, Hash)]
pub enum SnapFmt {
    Bincode,
    Json,
    /// the generator is one member of a larger snapshot: `(generator, marker, generator, marker)`
    /// in bincode - what comes after it in the stream must still be readable
    BincodeFramed,
    /// the same inside a JSON array
    JsonFramed,
    /// bincode written with `serialize_into`, read back with `deserialize_from` through a reader that
    /// delivers 1..5 bytes per `read` call (short reads; nothing can be borrowed from the input)
    BincodeReader,
    /// pretty-printed JSON, read back with `serde_json::from_reader` through the same short-read
    /// reader (map keys arrive as owned strings, never borrowed)
    JsonReader,
    /// serialised into a `serde_json::Value` document and its bytes; the bytes are read back into a
    /// `Value` and the generator is deserialised from that (keys arrive owned and in sorted order)
    JsonValue,
    /// a self-describing format that is NOT human-readable (`is_human_readable() == false` at every level, as
    /// MessagePack / CBOR / BSON report; see nhr.rs), directly and with the generator embedded through
    /// `#[serde(flatten)]` / an internally tagged / an untagged enum (serde's buffers always answer `true`)
    CompactValue,
    CompactFlatten,
    CompactTagged,
    CompactUntagged,
    /// bincode with its own default `Options` (`bincode::options()`): variable-length integers, where signed
    /// and unsigned values are encoded differently (zig-zag)
    BincodeVarint,
    /// bincode options with big-endian fixed-width integers
    BincodeBigEndian,
    /// TOML text (a format whose integers are signed 64-bit: unsigned words arrive through the
    /// deserializer's i64 path whenever they fit); a value the format cannot express is "not written"
    Toml,
    /// JSON of a user struct that embeds the generator with `#[serde(flatten)]` (the generator's fields
    /// sit next to the struct's own; deserialisation goes through serde's buffered `Content` and the
    /// `fields` list the type passes to `deserialize_struct`)
    JsonFlatten,
    /// JSON of an internally tagged enum (`#[serde(tag = "type")]`) whose variant holds the generator
    JsonTagged,
    /// JSON of an untagged enum: the generator is whichever variant deserialises
    JsonUntagged,
}

#[derive(Serialize, Deserialize)]
pub struct Flat<T> {
    pub step: u64,
    #[serde(flatten)]
    pub rng: T,
    pub tail: u32,
}
#[derive(Serialize, Deserialize)]
#[serde(tag = "type")]
pub enum Tagged<T> {
    Gen(T),
    Other { x: u8 },
}
#[derive(Serialize, Deserialize)]
#[serde(untagged)]
pub enum Untagged<T> {
    Other { nothing_like_a_generator: u8 },
    Gen(T),
}

/// A reader over a byte image that returns at most 1..5 bytes per call (deterministic in the position).
pub struct ShortReader<'a> {
    pub data: &'a [u8],
    pub pos: usize,
}
impl<'a> std::io::Read for ShortReader<'a> {
    fn read(&mut self, buf: &mut [u8]) -> std::io::Result<usize> {
        let left = self.data.len() - self.pos;
        let k = (1 + (self.pos * 7 + 3) % 5).min(left).min(buf.len());
        buf[..k].copy_from_slice(&self.data[self.pos..self.pos + k]);
        self.pos += k;
        Ok(k)
    }
}

pub const FRAME_MARK: u32 = 0x5EA1_ED01;

// ------------------------------------------------------------------------------------------
// Guard around every call into the code under test
// ------------------------------------------------------------------------------------------

thread_local! {
    pub static LAST_PANIC: RefCell<String> = RefCell::new(String::new());
}

pub fn install_quiet_panic_hook() {
    std::panic::set_hook(Box::new(|info| {
        let loc = info
            .location()
            .map(|l| format!("{}:{}", l.file(), l.line()))
            .unwrap_or_default();
        let msg = if let Some(s) = info.payload().downcast_ref::<&str>() {
            s.to_string()
        } else if let Some(s) = info.payload().downcast_ref::<String>() {
            s.clone()
        } else {
            "<non-string payload>".to_string()
        };
        LAST_PANIC.with(|p| *p.borrow_mut() = format!("{} @ {}", msg, loc));
    }));
}

#[derive(Clone, Debug, PartialEq)]
pub enum SutFail {
    /// the code under test panicked (message @ location)
    Panic(String),
    /// the simulator aborted the operation: clock read budget exceeded (stuck clock)
    ClockAbort,
}

/// Run one operation of the code under test; a panic is caught and classified.
pub fn guard<R>(f: impl FnOnce() -> R) -> Result<R, SutFail> {
    match catch_unwind(AssertUnwindSafe(f)) {
        Ok(r) => Ok(r),
        Err(p) => {
            if p.downcast_ref::<ClockAbort>().is_some() {
                Err(SutFail::ClockAbort)
            } else {
                let m = LAST_PANIC.with(|p| p.borrow().clone());
                // a panic raised by the harness's own source files is a harness error, never a
                // finding about the code under test: let it escape to the engine
                let loc = m.rsplit(" @ ").next().unwrap_or("");
                if loc.starts_with("src/") {
                    std::panic::resume_unwind(p);
                }
                Err(SutFail::Panic(m))
            }
        }
    }
}

// ------------------------------------------------------------------------------------------
// DynGen
// ------------------------------------------------------------------------------------------

pub trait JitterOps {
    fn timer_stats(&mut self, var: bool) -> i64;
    fn set_rounds(&mut self, r: u8);
    fn test_timer(&mut self) -> Result<u8, rand_jitter::TimerError>;
    fn reads(&self) -> u64;
    fn set_cap(&self, cap: u64);
}

pub trait DynGen {
    fn kind(&self) -> Kind;
    fn next_u32(&mut self) -> u32;
    fn next_u64(&mut self) -> u64;
    fn fill_bytes(&mut self, dest: &mut [u8]);
    fn boxed_clone(&self) -> Box<dyn DynGen>;
    /// `Clone::clone_from(self, src)`; false when `src` is of another type (nothing done)
    fn clone_from_dyn(&mut self, src: &dyn DynGen) -> bool;
    /// `None` when the type has no `PartialEq`
    fn eq_dyn(&self, other: &dyn DynGen) -> Option<bool>;
    /// `a != b` (the operator, not the negation of `==`); `None` when the type has no `PartialEq`
    fn ne_dyn(&self, _other: &dyn DynGen) -> Option<bool> {
        None
    }
    fn jump(&mut self) -> bool;
    fn long_jump(&mut self) -> bool;
    fn snapshot(&self, fmt: SnapFmt) -> Option<Vec<u8>>;
    fn debug(&self) -> (String, String);
    fn as_any(&self) -> &dyn Any;
    fn jitter(&mut self) -> Option<&mut dyn JitterOps> {
        None
    }
    fn jitter_ref(&self) -> Option<&dyn JitterOps> {
        None
    }
}

/// Which call sites a run uses. `false`: what a user of the concrete type writes (`rng.next_u32()`,
/// `Xoshiro256PlusPlus::from_seed(seed)`, `x.clone()`): an inherent item of the same name takes
/// precedence there. `true`: what generic code (`fn f<R: RngCore>(r: &mut R)`, `R::from_seed`) resolves
/// to: always the trait implementation. Both must behave identically; set per run from `Spec.generic`.
static CALL_GENERIC: std::sync::atomic::AtomicBool = std::sync::atomic::AtomicBool::new(false);
pub fn set_call_generic(on: bool) {
    CALL_GENERIC.store(on, std::sync::atomic::Ordering::SeqCst);
}
#[inline]
pub fn call_generic() -> bool {
    CALL_GENERIC.load(std::sync::atomic::Ordering::Relaxed)
}

struct SendRef(*const (dyn DynGen + 'static));
unsafe impl Send for SendRef {}
impl SendRef {
    /// (a method, so that a closure captures the whole wrapper and not its raw-pointer field)
    fn texts(&self) -> (String, String) {
        unsafe { (*self.0).debug() }
    }
}

/// Debug texts of `g`, produced in ambient context `ctx` (see `Spec.ctx`). Context 1 formats inside
/// a destructor that runs while the thread unwinds from a panic raised by the harness itself with
/// `resume_unwind` (no hook runs; `std::thread::panicking()` is true); the caller has formatted
/// the value once before, so a Debug implementation that panics was already seen outside.
/// Context 2 formats on a freshly spawned thread (every generator type is Send + Sync, which C19
/// checks statically).
pub fn debug_in_ctx(g: &dyn DynGen, ctx: u8) -> (String, String) {
    match ctx {
        1 => {
            struct OnUnwind<'a>(&'a dyn DynGen, &'a std::cell::RefCell<Option<(String, String)>>);
            impl<'a> Drop for OnUnwind<'a> {
                fn drop(&mut self) {
                    *self.1.borrow_mut() = Some(self.0.debug());
                }
            }
            let out = std::cell::RefCell::new(None);
            let r = std::panic::catch_unwind(std::panic::AssertUnwindSafe(|| {
                let _g = OnUnwind(g, &out);
                std::panic::resume_unwind(Box::new("harness: unwinding context"));
            }));
            assert!(r.is_err(), "harness: unwinding context did not unwind");
            let t = out.borrow_mut().take();
            t.expect("harness: destructor did not run")
        }
        2 => {
            // the scoped thread is joined before `g` can go away
            let p = SendRef(unsafe { std::mem::transmute::<*const dyn DynGen, *const (dyn DynGen + 'static)>(g as *const dyn DynGen) });
            // (if the system refuses a thread right now, this thread does the formatting)
            std::thread::scope(|s| match std::thread::Builder::new().spawn_scoped(s, move || p.texts()) {
                Ok(h) => h.join().expect("harness: formatting thread"),
                Err(_) => g.debug(),
            })
        }
        _ => g.debug(),
    }
}

/// Debug texts: `{:?}`, and `{:#?}` followed by the texts under every other formatter flag a Debug
/// implementation can look at (hex flags, sign, width, precision, zero padding, alignment).
pub fn dbg_texts<T: std::fmt::Debug>(x: &T) -> (String, String) {
    let compact = format!("{:?}", x);
    let rest = format!("{:#?}\u{1}{:x?}\u{1}{:#X?}\u{1}{:+?}\u{1}{:12.3?}\u{1}{:<08?}\u{1}{:^#30.1x?}", x, x, x, x, x, x, x);
    (compact, rest)
}

// ---- `==` evaluated on copies placed at different addresses -------------------------------
// The verdict of `==` may depend on the two values only, not on where they live: the operands
// are cloned into one heap block at offsets 0, 4, 8 and 12 modulo 16 (adjacent array elements,
// a field behind a `u32`, a boxed value next to a stack value all differ like that).
#[repr(C, align(16))]
pub struct P0<T> {
    v: T,
}
#[repr(C, align(16))]
pub struct P4<T> {
    pad: u32,
    v: T,
}
#[repr(C, align(16))]
pub struct P8<T> {
    pad: u64,
    v: T,
}
#[repr(C, align(16))]
pub struct P12<T> {
    pad: [u32; 3],
    v: T,
}
thread_local! {
    static PLACEMENT: std::cell::RefCell<Option<String>> = const { std::cell::RefCell::new(None) };
}
/// registers this module's thread-locals on the calling thread (see `Spec.thread` == 3)
pub fn touch_thread_locals() {
    PLACEMENT.with(|_| ());
}
/// the first placement disagreement seen since the last call (and clears it)
pub fn take_placement_disagreement() -> Option<String> {
    PLACEMENT.with(|p| p.borrow_mut().take())
}
pub fn eq_placed<T: PartialEq + Clone>(a: &T, b: &T) -> bool {
    let e = a == b;
    let x = Box::new((P0 { v: a.clone() }, P4 { pad: 0, v: b.clone() }, P8 { pad: 0, v: b.clone() }, P12 { pad: [0; 3], v: a.clone() }));
    let _ = (x.1.pad, x.2.pad, x.3.pad);
    let r = [x.0.v == x.1.v, x.0.v == x.2.v, x.3.v == x.1.v, x.1.v == x.0.v, x.3.v == x.2.v];
    if r.iter().any(|y| *y != e) {
        let off = |p: *const T| p as usize % 16;
        PLACEMENT.with(|p| {
            let mut p = p.borrow_mut();
            if p.is_none() {
                *p = Some(format!(
                    "`a == b` is {} for the operands where they were, but copies of the same two values placed at addresses {} / {} / {} / {} modulo 16 compare as {:?} (pairs 0-1, 0-2, 3-1, 1-0, 3-2; 0 and 3 are copies of a, 1 and 2 of b)",
                    e, off(&x.0.v), off(&x.1.v), off(&x.2.v), off(&x.3.v), r
                ));
            }
        });
    }
    e
}

// ---- where a generator lives ---------------------------------------------------------------
// What a generator returns may not depend on its own address. The 19 seedable generator types are
// held at offset 0 / 4 / 8 / 12 (modulo 16, as far as the type's alignment allows) of a 16-aligned
// heap block; the slot comes from the run (`Spec.place`), a clone goes to the next slot.
static PLACE: std::sync::atomic::AtomicU8 = std::sync::atomic::AtomicU8::new(0);
pub fn set_place(p: u8) {
    PLACE.store(p % 4, std::sync::atomic::Ordering::SeqCst);
}
pub enum Placed<T> {
    A(Box<P0<T>>),
    B(Box<P4<T>>),
    C(Box<P8<T>>),
    D(Box<P12<T>>),
}
impl<T> Placed<T> {
    pub fn new(v: T) -> Placed<T> {
        Placed::at(v, PLACE.load(std::sync::atomic::Ordering::Relaxed))
    }
    pub fn at(v: T, slot: u8) -> Placed<T> {
        match slot % 4 {
            0 => Placed::A(Box::new(P0 { v })),
            1 => Placed::B(Box::new(P4 { pad: 0, v })),
            2 => Placed::C(Box::new(P8 { pad: 0, v })),
            _ => Placed::D(Box::new(P12 { pad: [0; 3], v })),
        }
    }
    pub fn slot(&self) -> u8 {
        match self {
            Placed::A(_) => 0,
            Placed::B(_) => 1,
            Placed::C(_) => 2,
            Placed::D(_) => 3,
        }
    }
}
impl<T> std::ops::Deref for Placed<T> {
    type Target = T;
    fn deref(&self) -> &T {
        match self {
            Placed::A(b) => &b.v,
            Placed::B(b) => &b.v,
            Placed::C(b) => &b.v,
            Placed::D(b) => &b.v,
        }
    }
}
impl<T> std::ops::DerefMut for Placed<T> {
    fn deref_mut(&mut self) -> &mut T {
        match self {
            Placed::A(b) => &mut b.v,
            Placed::B(b) => &mut b.v,
            Placed::C(b) => &mut b.v,
            Placed::D(b) => &mut b.v,
        }
    }
}

// `Clone` likewise (the value `JitterRng::new()` returns is of an opaque type that is not `Clone`
// today; if it becomes `Clone`, its clones are held to what C16 says about clones).
pub struct CloneProbe<'a, T>(pub &'a T);
pub trait CloneYes<T> {
    fn try_clone(&self) -> Option<T>;
}
impl<'a, T: Clone> CloneYes<T> for CloneProbe<'a, T> {
    fn try_clone(&self) -> Option<T> {
        Some(self.0.clone())
    }
}
pub trait CloneNo<T> {
    fn try_clone(&self) -> Option<T>;
}
impl<'a, T> CloneNo<T> for &CloneProbe<'a, T> {
    fn try_clone(&self) -> Option<T> {
        None
    }
}

// `Default` is probed the same way: a type that gains a `Default` implementation has gained a
// constructor, and it is held to what the properties say about constructors.
pub struct DefProbe<T>(pub std::marker::PhantomData<T>);
pub trait DefYes<T> {
    fn make(&self) -> Option<T>;
}
impl<T: Default> DefYes<T> for DefProbe<T> {
    fn make(&self) -> Option<T> {
        Some(T::default())
    }
}
pub trait DefNo<T> {
    fn make(&self) -> Option<T>;
}
impl<T> DefNo<T> for &DefProbe<T> {
    fn make(&self) -> Option<T> {
        None
    }
}

// `==` is PROBED, not taken from a table: a type that gains a `PartialEq` implementation is compared
// from then on (autoref specialisation: the `PartialEq` implementation of the probe is found first,
// the fallback only through one more auto-reference).
pub struct EqProbe<'a, T>(pub &'a T, pub &'a T);
pub trait EqYes {
    fn eq_opt(&self) -> Option<bool>;
    fn ne_opt(&self) -> Option<bool>;
}
impl<'a, T: PartialEq + Clone> EqYes for EqProbe<'a, T> {
    fn eq_opt(&self) -> Option<bool> {
        Some(eq_placed(self.0, self.1))
    }
    fn ne_opt(&self) -> Option<bool> {
        Some(self.0 != self.1)
    }
}
pub trait EqNo {
    fn eq_opt(&self) -> Option<bool>;
    fn ne_opt(&self) -> Option<bool>;
}
impl<'a, T> EqNo for &EqProbe<'a, T> {
    fn eq_opt(&self) -> Option<bool> {
        None
    }
    fn ne_opt(&self) -> Option<bool> {
        None
    }
}
macro_rules! m_eq {
    ($table:tt, $a:expr, $b:expr) => {{
        let r: Option<bool> = (&EqProbe(&$a, &$b)).eq_opt();
        r
    }};
}
macro_rules! m_ne {
    ($table:tt, $a:expr, $b:expr) => {{
        let r: Option<bool> = (&EqProbe(&$a, &$b)).ne_opt();
        r
    }};
}
macro_rules! m_jump {
    (yes, $s:expr, $m:ident) => {{
        $s.$m();
        true
    }};
    (no, $s:expr, $m:ident) => {{
        let _ = &$s;
        false
    }};
}
macro_rules! m_snap {
    (yes, $s:expr, $fmt:expr) => {{
        #[cfg(feature = "snap")]
        {
            match $fmt {
                SnapFmt::Bincode => Some(bincode::serialize($s).expect("bincode serialize")),
                SnapFmt::Json => Some(serde_json::to_vec($s).expect("json serialize")),
                SnapFmt::BincodeFramed => Some(bincode::serialize(&($s, FRAME_MARK, $s, FRAME_MARK ^ 1)).expect("bincode serialize")),
                SnapFmt::JsonFramed => Some(serde_json::to_vec(&($s, FRAME_MARK, $s, FRAME_MARK ^ 1)).expect("json serialize")),
                SnapFmt::BincodeReader => {
                    let mut v = Vec::new();
                    bincode::serialize_into(&mut v, $s).expect("bincode serialize_into");
                    Some(v)
                }
                SnapFmt::JsonReader => Some(serde_json::to_vec_pretty($s).expect("json serialize")),
                SnapFmt::JsonValue => Some(serde_json::to_vec(&serde_json::to_value($s).expect("json to_value")).expect("json serialize")),
                SnapFmt::Toml => toml::to_string($s).ok().map(|t| t.into_bytes()),
                SnapFmt::CompactValue => Some(crate::nhr::to_vec($s).expect("compact serialize")),
                SnapFmt::CompactFlatten => Some(crate::nhr::to_vec(&Flat { step: 3, rng: $s, tail: 7 }).expect("compact serialize")),
                SnapFmt::CompactTagged => Some(crate::nhr::to_vec(&Tagged::Gen($s)).expect("compact serialize")),
                SnapFmt::CompactUntagged => Some(crate::nhr::to_vec(&Untagged::Gen($s)).expect("compact serialize")),
                SnapFmt::BincodeVarint => {
                    use bincode::Options;
                    Some(bincode::options().serialize($s).expect("bincode serialize"))
                }
                SnapFmt::BincodeBigEndian => {
                    use bincode::Options;
                    Some(bincode::options().with_big_endian().with_fixint_encoding().serialize($s).expect("bincode serialize"))
                }
                SnapFmt::JsonFlatten => Some(serde_json::to_vec(&Flat { step: 3, rng: $s, tail: 7 }).expect("json serialize")),
                SnapFmt::JsonTagged => Some(serde_json::to_vec(&Tagged::Gen($s)).expect("json serialize")),
                SnapFmt::JsonUntagged => Some(serde_json::to_vec(&Untagged::Gen($s)).expect("json serialize")),
            }
        }
        #[cfg(not(feature = "snap"))]
        {
            let _ = ($s, $fmt);
            None
        }
    }};
    (no, $s:expr, $fmt:expr) => {{
        let _ = ($s, $fmt);
        None
    }};
}
macro_rules! m_restore {
    (yes, $w:ident, $t:ty, $fmt:expr, $bytes:expr) => {{
        #[cfg(feature = "snap")]
        {
            let framed = |r: Result<($t, u32, $t, u32), String>| -> Result<$t, String> {
                let (_first, m1, second, m2) = r?;
                if m1 != FRAME_MARK || m2 != (FRAME_MARK ^ 1) {
                    return Err(format!("what follows the generator in the snapshot was read back as {:#x} / {:#x}", m1, m2));
                }
                // continue with the SECOND member: it only parses correctly if the first one consumed
                // exactly its own bytes
                Ok(second)
            };
            let r: Result<$t, String> = match $fmt {
                SnapFmt::Bincode => bincode::deserialize($bytes).map_err(|e| e.to_string()),
                SnapFmt::Json => serde_json::from_slice($bytes).map_err(|e| e.to_string()),
                SnapFmt::BincodeFramed => framed(bincode::deserialize($bytes).map_err(|e| e.to_string())),
                SnapFmt::JsonFramed => framed(serde_json::from_slice($bytes).map_err(|e| e.to_string())),
                SnapFmt::BincodeReader => bincode::deserialize_from(ShortReader { data: $bytes, pos: 0 }).map_err(|e| e.to_string()),
                SnapFmt::JsonReader => serde_json::from_reader(ShortReader { data: $bytes, pos: 0 }).map_err(|e| e.to_string()),
                SnapFmt::JsonValue => serde_json::from_slice::<serde_json::Value>($bytes).and_then(serde_json::from_value).map_err(|e| e.to_string()),
                SnapFmt::Toml => toml::from_str(std::str::from_utf8($bytes).map_err(|e| e.to_string())?).map_err(|e| e.to_string()),
                SnapFmt::CompactValue => crate::nhr::from_slice($bytes),
                SnapFmt::CompactFlatten => crate::nhr::from_slice::<Flat<$t>>($bytes).and_then(|f| {
                    if f.step == 3 && f.tail == 7 { Ok(f.rng) } else { Err("the embedding struct's own fields came back changed".to_string()) }
                }),
                SnapFmt::CompactTagged => crate::nhr::from_slice::<Tagged<$t>>($bytes).and_then(|f| match f {
                    Tagged::Gen(g) => Ok(g),
                    _ => Err("the other variant came back".to_string()),
                }),
                SnapFmt::CompactUntagged => crate::nhr::from_slice::<Untagged<$t>>($bytes).and_then(|f| match f {
                    Untagged::Gen(g) => Ok(g),
                    _ => Err("the other variant came back".to_string()),
                }),
                SnapFmt::BincodeVarint => {
                    use bincode::Options;
                    bincode::options().deserialize($bytes).map_err(|e| e.to_string())
                }
                SnapFmt::BincodeBigEndian => {
                    use bincode::Options;
                    bincode::options().with_big_endian().with_fixint_encoding().deserialize($bytes).map_err(|e| e.to_string())
                }
                SnapFmt::JsonFlatten => serde_json::from_slice::<Flat<$t>>($bytes).map_err(|e| e.to_string()).and_then(|f| {
                    if f.step == 3 && f.tail == 7 { Ok(f.rng) } else { Err("the embedding struct's own fields came back changed".to_string()) }
                }),
                SnapFmt::JsonTagged => serde_json::from_slice::<Tagged<$t>>($bytes).map_err(|e| e.to_string()).and_then(|f| match f {
                    Tagged::Gen(g) => Ok(g),
                    _ => Err("the other variant came back".to_string()),
                }),
                SnapFmt::JsonUntagged => serde_json::from_slice::<Untagged<$t>>($bytes).map_err(|e| e.to_string()).and_then(|f| match f {
                    Untagged::Gen(g) => Ok(g),
                    _ => Err("the other variant came back".to_string()),
                }),
            };
            r.map(|g| Box::new($w(Placed::new(g))) as Box<dyn DynGen>)
        }
        #[cfg(not(feature = "snap"))]
        {
            let _ = ($fmt, $bytes);
            Err::<Box<dyn DynGen>, String>("built without snap".into())
        }
    }};
    (no, $w:ident, $t:ty, $fmt:expr, $bytes:expr) => {{
        let _ = ($fmt, $bytes);
        Err::<Box<dyn DynGen>, String>("type is not serialisable".into())
    }};
}

// Construction is written as a macro over the CONCRETE type and uses the path-call syntax a user
// writes (`Xoshiro256PlusPlus::from_seed(seed)`), not a generic `T: SeedableRng` function: an
// inherent associated function of the same name added to a type takes precedence at such call
// sites, and a generic harness would never see it.
macro_rules! construct_m {
    ($t:ty, $seed:expr, $wrap:expr, $okc:path, $errc:path) => {{
        let wrap = $wrap;
        match $seed {
            SeedSpec::Bytes(b) => {
                let mut s = <$t as SeedableRng>::Seed::default();
                assert_eq!(s.as_mut().len(), b.len(), "harness: seed length");
                s.as_mut().copy_from_slice(b);
                $okc(wrap(if call_generic() { <$t as SeedableRng>::from_seed(s) } else { <$t>::from_seed(s) }), None)
            }
            SeedSpec::U64(x) => $okc(wrap(if call_generic() { <$t as SeedableRng>::seed_from_u64(*x) } else { <$t>::seed_from_u64(*x) }), None),
            SeedSpec::FromRng(src) if src.key % 4 == 1 => {
                // every fourth source is handed over as a zero-sized HANDLE (the state lives elsewhere)
                let mut h = crate::seams::source::HandleSource::park(SimSource::new(src.clone()));
                let g = if call_generic() { <$t as SeedableRng>::from_rng(&mut h) } else { <$t>::from_rng(&mut h) };
                let s = h.unpark();
                let rep = SourceReport { pos: s.pos, calls: s.calls, log: s.log, fired: false };
                $okc(wrap(g), Some(rep))
            }
            SeedSpec::FromRng(src) => {
                let mut s = SimSource::new(src.clone());
                let g = if call_generic() { <$t as SeedableRng>::from_rng(&mut s) } else { <$t>::from_rng(&mut s) };
                let rep = SourceReport { pos: s.pos, calls: s.calls, log: s.log, fired: false };
                $okc(wrap(g), Some(rep))
            }
            SeedSpec::TryFromRng(src) if src.fault.as_ref().map(|f| f.token % 3 == 1).unwrap_or(src.key % 3 == 1) => {
                // every third fallible source is a zero-sized handle
                let mut h = crate::seams::source::HandleFallible::park(FallibleSource::new(src.clone()));
                let r = if call_generic() { <$t as SeedableRng>::try_from_rng(&mut h) } else { <$t>::try_from_rng(&mut h) };
                let s = h.unpark();
                let rep = SourceReport {
                    pos: s.inner.pos,
                    calls: s.inner.calls,
                    log: s.inner.log,
                    fired: s.fired,
                };
                match r {
                    Ok(g) => $okc(wrap(g), Some(rep)),
                    Err(e) => $errc(e.0, rep),
                }
            }
            SeedSpec::TryFromRng(src) if src.fault.as_ref().map(|f| f.token % 3 == 0).unwrap_or(src.key % 3 == 0) => {
                // every third fallible source has an error type of size zero (a unit struct): the token is
                // then taken from the source's own record
                let mut s = crate::seams::source::FallibleSourceUnit(FallibleSource::new(src.clone()));
                let r = if call_generic() { <$t as SeedableRng>::try_from_rng(&mut s) } else { <$t>::try_from_rng(&mut s) };
                let s = s.0;
                let rep = SourceReport {
                    pos: s.inner.pos,
                    calls: s.inner.calls,
                    log: s.inner.log,
                    fired: s.fired,
                };
                match r {
                    Ok(g) => $okc(wrap(g), Some(rep)),
                    Err(_) => $errc(src.fault.as_ref().map(|f| f.token).unwrap_or(0), rep),
                }
            }
            SeedSpec::TryFromRng(src) => {
                let mut s = FallibleSource::new(src.clone());
                let r = if call_generic() { <$t as SeedableRng>::try_from_rng(&mut s) } else { <$t>::try_from_rng(&mut s) };
                let rep = SourceReport {
                    pos: s.inner.pos,
                    calls: s.inner.calls,
                    log: s.inner.log,
                    fired: s.fired,
                };
                match r {
                    Ok(g) => $okc(wrap(g), Some(rep)),
                    Err(e) => $errc(e.0, rep),
                }
            }
        }
    }};
}

macro_rules! det_gens {
    ($( $w:ident, $kind:ident, $t:ty, $eq:tt, $jump:tt, $snap:tt; )*) => {
        $(
            pub struct $w(pub Placed<$t>);
            impl DynGen for $w {
                fn kind(&self) -> Kind { Kind::$kind }
                fn next_u32(&mut self) -> u32 { if call_generic() { RngCore::next_u32(&mut *self.0) } else { (*self.0).next_u32() } }
                fn next_u64(&mut self) -> u64 { if call_generic() { RngCore::next_u64(&mut *self.0) } else { (*self.0).next_u64() } }
                fn fill_bytes(&mut self, dest: &mut [u8]) { if call_generic() { RngCore::fill_bytes(&mut *self.0, dest) } else { (*self.0).fill_bytes(dest) } }
                fn boxed_clone(&self) -> Box<dyn DynGen> { Box::new($w(Placed::at(if call_generic() { Clone::clone(&*self.0) } else { (*self.0).clone() }, self.0.slot() + 1))) }
                fn clone_from_dyn(&mut self, src: &dyn DynGen) -> bool {
                    match src.as_any().downcast_ref::<$w>() {
                        Some(o) => { if call_generic() { Clone::clone_from(&mut *self.0, &*o.0) } else { (*self.0).clone_from(&*o.0) }; true }
                        None => false,
                    }
                }
                fn eq_dyn(&self, other: &dyn DynGen) -> Option<bool> {
                    match other.as_any().downcast_ref::<$w>() {
                        Some(o) => m_eq!($eq, *self.0, *o.0),
                        None => None,
                    }
                }
                fn ne_dyn(&self, other: &dyn DynGen) -> Option<bool> {
                    match other.as_any().downcast_ref::<$w>() {
                        Some(o) => m_ne!($eq, *self.0, *o.0),
                        None => None,
                    }
                }
                fn jump(&mut self) -> bool { m_jump!($jump, (*self.0), jump) }
                fn long_jump(&mut self) -> bool { m_jump!($jump, (*self.0), long_jump) }
                fn snapshot(&self, fmt: SnapFmt) -> Option<Vec<u8>> { m_snap!($snap, &*self.0, fmt) }
                fn debug(&self) -> (String, String) { dbg_texts(&*self.0) }
                fn as_any(&self) -> &dyn Any { self }
            }
        )*

        fn construct_inner(kind: Kind, seed: &SeedSpec) -> Constructed {
            match kind {
                $( Kind::$kind => construct_m!($t, seed, |g: $t| Box::new($w(Placed::new(g))) as Box<dyn DynGen>, Constructed::Ok, Constructed::Err), )*
                Kind::Jitter => panic!("harness: Jitter is not SeedableRng"),
            }
        }

        /// `Default::default()` of the type, if the type has it
        pub fn default_of(kind: Kind) -> Option<Box<dyn DynGen>> {
            match kind {
                $( Kind::$kind => {
                    let g: Option<$t> = (&DefProbe::<$t>(std::marker::PhantomData)).make();
                    g.map(|g| Box::new($w(Placed::new(g))) as Box<dyn DynGen>)
                } )*
                Kind::Jitter => None,
            }
        }

        pub fn restore(kind: Kind, fmt: SnapFmt, bytes: &[u8]) -> Result<Box<dyn DynGen>, String> {
            match kind {
                $( Kind::$kind => m_restore!($snap, $w, $t, fmt, bytes), )*
                Kind::Jitter => Err("JitterRng is not serialisable".into()),
            }
        }
    };
}

det_gens! {
    GSplitMix64, SplitMix64, rand_xoshiro::SplitMix64, yes, no, yes;
    GXoroshiro64Star, Xoroshiro64Star, rand_xoshiro::Xoroshiro64Star, yes, no, yes;
    GXoroshiro64StarStar, Xoroshiro64StarStar, rand_xoshiro::Xoroshiro64StarStar, yes, no, yes;
    GXoroshiro128Plus, Xoroshiro128Plus, rand_xoshiro::Xoroshiro128Plus, yes, yes, yes;
    GXoroshiro128PlusPlus, Xoroshiro128PlusPlus, rand_xoshiro::Xoroshiro128PlusPlus, yes, yes, yes;
    GXoroshiro128StarStar, Xoroshiro128StarStar, rand_xoshiro::Xoroshiro128StarStar, yes, yes, yes;
    GXoshiro128Plus, Xoshiro128Plus, rand_xoshiro::Xoshiro128Plus, yes, yes, yes;
    GXoshiro128PlusPlus, Xoshiro128PlusPlus, rand_xoshiro::Xoshiro128PlusPlus, yes, yes, yes;
    GXoshiro128StarStar, Xoshiro128StarStar, rand_xoshiro::Xoshiro128StarStar, yes, yes, yes;
    GXoshiro256Plus, Xoshiro256Plus, rand_xoshiro::Xoshiro256Plus, yes, yes, yes;
    GXoshiro256PlusPlus, Xoshiro256PlusPlus, rand_xoshiro::Xoshiro256PlusPlus, yes, yes, yes;
    GXoshiro256StarStar, Xoshiro256StarStar, rand_xoshiro::Xoshiro256StarStar, yes, yes, yes;
    GXoshiro512Plus, Xoshiro512Plus, rand_xoshiro::Xoshiro512Plus, yes, yes, yes;
    GXoshiro512PlusPlus, Xoshiro512PlusPlus, rand_xoshiro::Xoshiro512PlusPlus, yes, yes, yes;
    GXoshiro512StarStar, Xoshiro512StarStar, rand_xoshiro::Xoshiro512StarStar, yes, yes, yes;
    GXorShift, XorShift, rand_xorshift::XorShiftRng, yes, no, yes;
    GHc128, Hc128, rand_hc::Hc128Rng, yes, no, no;
    GIsaac, Isaac, rand_isaac::IsaacRng, no, no, yes;
    GIsaac64, Isaac64, rand_isaac::Isaac64Rng, no, no, yes;
}

// ------------------------------------------------------------------------------------------
// Construction through every seeding route
// ------------------------------------------------------------------------------------------

#[derive(Serialize, Deserialize, Clone, Debug, PartialEq)]
pub enum SeedSpec {
    /// `from_seed(bytes)`; bytes.len() == kind.seed_len()
    Bytes(Vec<u8>),
    /// `seed_from_u64(x)`
    U64(u64),
    /// `from_rng(&mut SimSource)`
    FromRng(SourceSpec),
    /// `try_from_rng(&mut FallibleSource)`
    TryFromRng(SourceSpec),
}

impl SeedSpec {
    pub fn route(&self) -> u64 {
        match self {
            SeedSpec::Bytes(_) => 0,
            SeedSpec::U64(_) => 1,
            SeedSpec::FromRng(_) => 2,
            SeedSpec::TryFromRng(_) => 3,
        }
    }
}

#[derive(Clone, Debug, PartialEq)]
pub struct SourceReport {
    pub pos: usize,
    pub calls: u32,
    pub log: Vec<(u8, usize)>,
    pub fired: bool,
}

pub enum Constructed {
    Ok(Box<dyn DynGen>, Option<SourceReport>),
    /// try_from_rng returned Err(token)
    Err(u64, SourceReport),
}

/// Construct under the panic guard.
pub fn construct(kind: Kind, seed: &SeedSpec) -> Result<Constructed, SutFail> {
    guard(|| construct_inner(kind, seed))
}

// ------------------------------------------------------------------------------------------
// JitterRng over the simulated clock
// ------------------------------------------------------------------------------------------

pub struct JitterGen<F: Fn() -> u64 + Send + Sync + Clone + 'static> {
    pub rng: rand_jitter::JitterRng<F>,
    pub clock: Arc<ClockCore>,
}

impl<F: Fn() -> u64 + Send + Sync + Clone + 'static> JitterOps for JitterGen<F> {
    fn timer_stats(&mut self, var: bool) -> i64 {
        self.rng.timer_stats(var)
    }
    fn set_rounds(&mut self, r: u8) {
        self.rng.set_rounds(r)
    }
    fn test_timer(&mut self) -> Result<u8, rand_jitter::TimerError> {
        self.rng.test_timer()
    }
    fn reads(&self) -> u64 {
        self.clock.reads()
    }
    fn set_cap(&self, cap: u64) {
        self.clock.set_cap(cap)
    }
}

impl<F: Fn() -> u64 + Send + Sync + Clone + 'static> DynGen for JitterGen<F> {
    fn kind(&self) -> Kind {
        Kind::Jitter
    }
    fn next_u32(&mut self) -> u32 {
        if call_generic() {
            RngCore::next_u32(&mut self.rng)
        } else {
            self.rng.next_u32()
        }
    }
    fn next_u64(&mut self) -> u64 {
        if call_generic() {
            RngCore::next_u64(&mut self.rng)
        } else {
            self.rng.next_u64()
        }
    }
    fn fill_bytes(&mut self, dest: &mut [u8]) {
        if call_generic() {
            RngCore::fill_bytes(&mut self.rng, dest)
        } else {
            self.rng.fill_bytes(dest)
        }
    }
    fn boxed_clone(&self) -> Box<dyn DynGen> {
        let rng = if call_generic() { Clone::clone(&self.rng) } else { self.rng.clone() };
        // the clone of the closure forked the clock and registered the new cursor last
        let clock = self.clock.reg.forks.lock().unwrap().last().cloned().expect("fork registered");
        Box::new(JitterGen { rng, clock })
    }
    fn clone_from_dyn(&mut self, src: &dyn DynGen) -> bool {
        match src.as_any().downcast_ref::<JitterGen<F>>() {
            Some(o) => {
                if call_generic() {
                    Clone::clone_from(&mut self.rng, &o.rng)
                } else {
                    self.rng.clone_from(&o.rng)
                }
                // the timer was cloned (forked) from the source's: follow the newest fork
                self.clock = o.clock.reg.forks.lock().unwrap().last().cloned().expect("fork registered");
                true
            }
            None => false,
        }
    }
    fn eq_dyn(&self, _other: &dyn DynGen) -> Option<bool> {
        None
    }
    fn jump(&mut self) -> bool {
        false
    }
    fn long_jump(&mut self) -> bool {
        false
    }
    fn snapshot(&self, _fmt: SnapFmt) -> Option<Vec<u8>> {
        None
    }
    fn debug(&self) -> (String, String) {
        dbg_texts(&self.rng)
    }
    fn as_any(&self) -> &dyn Any {
        self
    }
    fn jitter(&mut self) -> Option<&mut dyn JitterOps> {
        Some(self)
    }
    fn jitter_ref(&self) -> Option<&dyn JitterOps> {
        Some(self)
    }
}

fn mk_jitter<F: Fn() -> u64 + Send + Sync + Clone + 'static>(
    clock: Arc<ClockCore>,
    f: F,
) -> Box<dyn DynGen> {
    Box::new(JitterGen { rng: rand_jitter::JitterRng::new_with_timer(f), clock })
}

pub fn build_jitter(spec: Arc<ClockSpec>) -> Box<dyn DynGen> {
    let (core, f) = sim_clock(spec);
    mk_jitter(core, f)
}

// ------------------------------------------------------------------------------------------
// The public block cores (Hc128Core, IsaacCore, Isaac64Core)
// ------------------------------------------------------------------------------------------

#[derive(Serialize, Deserialize, Clone, Copy, Debug, PartialEq, Eq, PartialOrd, Ord, Hash)]
pub enum CoreKind {
    Hc128Core,
    IsaacCore,
    Isaac64Core,
}
pub const CORE_KINDS: [CoreKind; 3] = [CoreKind::Hc128Core, CoreKind::IsaacCore, CoreKind::Isaac64Core];

impl CoreKind {
    pub fn rng_kind(self) -> Kind {
        match self {
            CoreKind::Hc128Core => Kind::Hc128,
            CoreKind::IsaacCore => Kind::Isaac,
            CoreKind::Isaac64Core => Kind::Isaac64,
        }
    }
    pub fn name(self) -> &'static str {
        match self {
            CoreKind::Hc128Core => "Hc128Core",
            CoreKind::IsaacCore => "IsaacCore",
            CoreKind::Isaac64Core => "Isaac64Core",
        }
    }
    pub fn has_serde(self) -> bool {
        !matches!(self, CoreKind::Hc128Core)
    }
}

pub trait DynCore {
    fn kind(&self) -> CoreKind;
    /// one `generate()` into a fresh default Results buffer; returns the block as u64 words
    fn generate(&mut self) -> Vec<u64>;
    /// the owner's buffer holds `prime` (repeated / truncated to its length) when `generate()` is called: what
    /// an out-parameter holds on entry is the caller's business and public
    fn generate_primed(&mut self, prime: &[u64]) -> Vec<u64>;
    /// `generate()` into the process-wide scratch block that every core of this type shares (an
    /// application that keeps one scratch buffer for all its cores): the block is copied out before anyone
    /// else can use the scratch again
    fn generate_shared(&mut self) -> Vec<u64>;
    fn boxed_clone(&self) -> Box<dyn DynCore>;
    /// `Clone::clone_from(self, src)`; false when `src` is another core type
    fn clone_from_dyn(&mut self, src: &dyn DynCore) -> bool;
    fn eq_dyn(&self, other: &dyn DynCore) -> bool;
    fn snapshot(&self, fmt: SnapFmt) -> Option<Vec<u8>>;
    fn debug(&self) -> (String, String);
    /// wrap a clone in BlockRng / BlockRng64 (harness side) to get a DynGen
    fn wrap(&self) -> Box<dyn DynGen>;
    fn as_any(&self) -> &dyn Any;
}

/// A public block core together with the results buffer its owner keeps handing to `generate()`
/// (as `BlockRng` does). A clone gets a FRESH default buffer (as `BlockRng::new(core.clone())` would
/// give it): `generate` must be a function of the core alone, not of what the buffer still holds.
pub struct CHc128(pub rand_hc::Hc128Core, pub <rand_hc::Hc128Core as BlockRngCore>::Results);
pub struct CIsaac(pub rand_isaac::isaac::IsaacCore, pub <rand_isaac::isaac::IsaacCore as BlockRngCore>::Results);
pub struct CIsaac64(pub rand_isaac::isaac64::Isaac64Core, pub <rand_isaac::isaac64::Isaac64Core as BlockRngCore>::Results);

/// BlockRng<Core> built by the harness (not one of the crate's own wrapper types).
pub struct WrappedCore32<C: BlockRngCore<Item = u32> + Clone + Send + 'static>(pub BlockRng<C>, pub Kind);
pub struct WrappedCore64<C: BlockRngCore<Item = u64> + Clone + Send + 'static>(pub BlockRng64<C>, pub Kind);

macro_rules! wrapped_impl {
    ($w:ident, $b:ident, $item:ty) => {
        impl<C> DynGen for $w<C>
        where
            C: BlockRngCore<Item = $item> + Clone + Send + std::fmt::Debug + 'static,
            C::Results: Clone + Send,
        {
            fn kind(&self) -> Kind {
                self.1
            }
            fn next_u32(&mut self) -> u32 {
                self.0.next_u32()
            }
            fn next_u64(&mut self) -> u64 {
                self.0.next_u64()
            }
            fn fill_bytes(&mut self, dest: &mut [u8]) {
                self.0.fill_bytes(dest)
            }
            fn boxed_clone(&self) -> Box<dyn DynGen> {
                Box::new($w(self.0.clone(), self.1))
            }
            fn clone_from_dyn(&mut self, src: &dyn DynGen) -> bool {
                match src.as_any().downcast_ref::<$w<C>>() {
                    Some(o) => {
                        self.0.clone_from(&o.0);
                        true
                    }
                    None => false,
                }
            }
            fn eq_dyn(&self, _other: &dyn DynGen) -> Option<bool> {
                None
            }
            fn jump(&mut self) -> bool {
                false
            }
            fn long_jump(&mut self) -> bool {
                false
            }
            fn snapshot(&self, _fmt: SnapFmt) -> Option<Vec<u8>> {
                None
            }
            fn debug(&self) -> (String, String) {
                dbg_texts(&self.0)
            }
            fn as_any(&self) -> &dyn Any {
                self
            }
        }
    };
}
wrapped_impl!(WrappedCore32, BlockRng, u32);
wrapped_impl!(WrappedCore64, BlockRng64, u64);

impl DynCore for CHc128 {
    fn kind(&self) -> CoreKind {
        CoreKind::Hc128Core
    }
    fn generate(&mut self) -> Vec<u64> {
        self.0.generate(&mut self.1);
        self.1.as_ref().iter().map(|x| *x as u64).collect()
    }
    fn generate_primed(&mut self, prime: &[u64]) -> Vec<u64> {
        if !prime.is_empty() {
            for (i, w) in self.1.as_mut().iter_mut().enumerate() {
                *w = prime[i % prime.len()] as u32;
            }
        }
        self.generate()
    }
    fn generate_shared(&mut self) -> Vec<u64> {
        static SCRATCH: std::sync::Mutex<Option<<rand_hc::Hc128Core as BlockRngCore>::Results>> = std::sync::Mutex::new(None);
        let mut g = SCRATCH.lock().unwrap_or_else(|e| e.into_inner());
        let buf = g.get_or_insert_with(Default::default);
        self.0.generate(buf);
        buf.as_ref().iter().map(|x| *x as u64).collect()
    }
    fn boxed_clone(&self) -> Box<dyn DynCore> {
        Box::new(CHc128(self.0.clone(), Default::default()))
    }
    fn clone_from_dyn(&mut self, src: &dyn DynCore) -> bool {
        match src.as_any().downcast_ref::<CHc128>() {
            Some(o) => {
                self.0.clone_from(&o.0);
                true
            }
            None => false,
        }
    }
    fn eq_dyn(&self, other: &dyn DynCore) -> bool {
        eq_placed(&self.0, &other.as_any().downcast_ref::<CHc128>().expect("core kind").0)
    }
    fn snapshot(&self, _fmt: SnapFmt) -> Option<Vec<u8>> {
        None
    }
    fn debug(&self) -> (String, String) {
        dbg_texts(&self.0)
    }
    fn wrap(&self) -> Box<dyn DynGen> {
        Box::new(WrappedCore32(BlockRng::new(self.0.clone()), Kind::Hc128))
    }
    fn as_any(&self) -> &dyn Any {
        self
    }
}

impl DynCore for CIsaac {
    fn kind(&self) -> CoreKind {
        CoreKind::IsaacCore
    }
    fn generate(&mut self) -> Vec<u64> {
        self.0.generate(&mut self.1);
        self.1.as_ref().iter().map(|x| *x as u64).collect()
    }
    fn generate_primed(&mut self, prime: &[u64]) -> Vec<u64> {
        if !prime.is_empty() {
            for (i, w) in self.1.as_mut().iter_mut().enumerate() {
                *w = prime[i % prime.len()] as u32;
            }
        }
        self.generate()
    }
    fn generate_shared(&mut self) -> Vec<u64> {
        static SCRATCH: std::sync::Mutex<Option<<rand_isaac::isaac::IsaacCore as BlockRngCore>::Results>> = std::sync::Mutex::new(None);
        let mut g = SCRATCH.lock().unwrap_or_else(|e| e.into_inner());
        let buf = g.get_or_insert_with(Default::default);
        self.0.generate(buf);
        buf.as_ref().iter().map(|x| *x as u64).collect()
    }
    fn boxed_clone(&self) -> Box<dyn DynCore> {
        Box::new(CIsaac(self.0.clone(), Default::default()))
    }
    fn clone_from_dyn(&mut self, src: &dyn DynCore) -> bool {
        match src.as_any().downcast_ref::<CIsaac>() {
            Some(o) => {
                self.0.clone_from(&o.0);
                true
            }
            None => false,
        }
    }
    fn eq_dyn(&self, other: &dyn DynCore) -> bool {
        eq_placed(&self.0, &other.as_any().downcast_ref::<CIsaac>().expect("core kind").0)
    }
    fn snapshot(&self, fmt: SnapFmt) -> Option<Vec<u8>> {
        m_snap!(yes, &self.0, fmt)
    }
    fn debug(&self) -> (String, String) {
        dbg_texts(&self.0)
    }
    fn wrap(&self) -> Box<dyn DynGen> {
        Box::new(WrappedCore32(BlockRng::new(self.0.clone()), Kind::Isaac))
    }
    fn as_any(&self) -> &dyn Any {
        self
    }
}

impl DynCore for CIsaac64 {
    fn kind(&self) -> CoreKind {
        CoreKind::Isaac64Core
    }
    fn generate(&mut self) -> Vec<u64> {
        self.0.generate(&mut self.1);
        self.1.as_ref().to_vec()
    }
    fn generate_primed(&mut self, prime: &[u64]) -> Vec<u64> {
        if !prime.is_empty() {
            for (i, w) in self.1.as_mut().iter_mut().enumerate() {
                *w = prime[i % prime.len()];
            }
        }
        self.generate()
    }
    fn generate_shared(&mut self) -> Vec<u64> {
        static SCRATCH: std::sync::Mutex<Option<<rand_isaac::isaac64::Isaac64Core as BlockRngCore>::Results>> = std::sync::Mutex::new(None);
        let mut g = SCRATCH.lock().unwrap_or_else(|e| e.into_inner());
        let buf = g.get_or_insert_with(Default::default);
        self.0.generate(buf);
        buf.as_ref().iter().map(|x| *x).collect()
    }
    fn boxed_clone(&self) -> Box<dyn DynCore> {
        Box::new(CIsaac64(self.0.clone(), Default::default()))
    }
    fn clone_from_dyn(&mut self, src: &dyn DynCore) -> bool {
        match src.as_any().downcast_ref::<CIsaac64>() {
            Some(o) => {
                self.0.clone_from(&o.0);
                true
            }
            None => false,
        }
    }
    fn eq_dyn(&self, other: &dyn DynCore) -> bool {
        eq_placed(&self.0, &other.as_any().downcast_ref::<CIsaac64>().expect("core kind").0)
    }
    fn snapshot(&self, fmt: SnapFmt) -> Option<Vec<u8>> {
        m_snap!(yes, &self.0, fmt)
    }
    fn debug(&self) -> (String, String) {
        dbg_texts(&self.0)
    }
    fn wrap(&self) -> Box<dyn DynGen> {
        Box::new(WrappedCore64(BlockRng64::new(self.0.clone()), Kind::Isaac64))
    }
    fn as_any(&self) -> &dyn Any {
        self
    }
}

pub enum CoreConstructed {
    Ok(Box<dyn DynCore>, Option<SourceReport>),
    Err(u64, SourceReport),
}

pub fn construct_core(kind: CoreKind, seed: &SeedSpec) -> Result<CoreConstructed, SutFail> {
    guard(|| match kind {
        CoreKind::Hc128Core => construct_m!(rand_hc::Hc128Core, seed, |c: rand_hc::Hc128Core| Box::new(CHc128(c, Default::default())) as Box<dyn DynCore>, CoreConstructed::Ok, CoreConstructed::Err),
        CoreKind::IsaacCore => construct_m!(rand_isaac::isaac::IsaacCore, seed, |c: rand_isaac::isaac::IsaacCore| Box::new(CIsaac(c, Default::default())) as Box<dyn DynCore>, CoreConstructed::Ok, CoreConstructed::Err),
        CoreKind::Isaac64Core => {
            construct_m!(rand_isaac::isaac64::Isaac64Core, seed, |c: rand_isaac::isaac64::Isaac64Core| Box::new(CIsaac64(c, Default::default())) as Box<dyn DynCore>, CoreConstructed::Ok, CoreConstructed::Err)
        }
    })
}

pub fn restore_core(kind: CoreKind, fmt: SnapFmt, bytes: &[u8]) -> Result<Box<dyn DynCore>, String> {
    #[cfg(feature = "snap")]
    {
        fn de<T: serde::de::DeserializeOwned>(fmt: SnapFmt, bytes: &[u8]) -> Result<T, String> {
            match fmt {
                SnapFmt::Bincode | SnapFmt::BincodeFramed => bincode::deserialize(bytes).map_err(|e| e.to_string()),
                SnapFmt::Json | SnapFmt::JsonFramed => serde_json::from_slice(bytes).map_err(|e| e.to_string()),
                SnapFmt::BincodeReader => bincode::deserialize_from(ShortReader { data: bytes, pos: 0 }).map_err(|e| e.to_string()),
                SnapFmt::JsonReader => serde_json::from_reader(ShortReader { data: bytes, pos: 0 }).map_err(|e| e.to_string()),
                SnapFmt::JsonValue => serde_json::from_slice::<serde_json::Value>(bytes).and_then(serde_json::from_value).map_err(|e| e.to_string()),
                SnapFmt::Toml => toml::from_str(std::str::from_utf8(bytes).map_err(|e| e.to_string())?).map_err(|e| e.to_string()),
                SnapFmt::CompactValue => crate::nhr::from_slice(bytes),
                SnapFmt::CompactFlatten => crate::nhr::from_slice::<Flat<T>>(bytes).map(|f| f.rng),
                SnapFmt::CompactTagged => crate::nhr::from_slice::<Tagged<T>>(bytes).and_then(|f| match f {
                    Tagged::Gen(g) => Ok(g),
                    _ => Err("the other variant came back".to_string()),
                }),
                SnapFmt::CompactUntagged => crate::nhr::from_slice::<Untagged<T>>(bytes).and_then(|f| match f {
                    Untagged::Gen(g) => Ok(g),
                    _ => Err("the other variant came back".to_string()),
                }),
                SnapFmt::BincodeVarint => {
                    use bincode::Options;
                    bincode::options().deserialize(bytes).map_err(|e| e.to_string())
                }
                SnapFmt::BincodeBigEndian => {
                    use bincode::Options;
                    bincode::options().with_big_endian().with_fixint_encoding().deserialize(bytes).map_err(|e| e.to_string())
                }
                SnapFmt::JsonFlatten => serde_json::from_slice::<Flat<T>>(bytes).map(|f| f.rng).map_err(|e| e.to_string()),
                SnapFmt::JsonTagged => serde_json::from_slice::<Tagged<T>>(bytes).map_err(|e| e.to_string()).and_then(|f| match f {
                    Tagged::Gen(g) => Ok(g),
                    _ => Err("the other variant came back".to_string()),
                }),
                SnapFmt::JsonUntagged => serde_json::from_slice::<Untagged<T>>(bytes).map_err(|e| e.to_string()).and_then(|f| match f {
                    Untagged::Gen(g) => Ok(g),
                    _ => Err("the other variant came back".to_string()),
                }),
            }
        }
        match kind {
            CoreKind::Hc128Core => Err("Hc128Core is not serialisable".into()),
            CoreKind::IsaacCore => de::<rand_isaac::isaac::IsaacCore>(fmt, bytes)
                .map(|c| Box::new(CIsaac(c, Default::default())) as Box<dyn DynCore>),
            CoreKind::Isaac64Core => de::<rand_isaac::isaac64::Isaac64Core>(fmt, bytes)
                .map(|c| Box::new(CIsaac64(c, Default::default())) as Box<dyn DynCore>),
        }
    }
    #[cfg(not(feature = "snap"))]
    {
        let _ = (kind, fmt, bytes);
        Err("built without snap".into())
    }
}


/// A block core that an application drives itself, through ONE scratch block shared by all its cores of
/// that type (`DynCore::generate_shared`); the words of each block are copied out and served from a
/// private queue. Used by C19: what another core left in the scratch block must not matter.
pub struct SharedCoreGen {
    pub core: Box<dyn DynCore>,
    pub queue: std::collections::VecDeque<u64>,
}
impl SharedCoreGen {
    fn word(&mut self) -> u64 {
        if self.queue.is_empty() {
            self.queue.extend(self.core.generate_shared());
        }
        self.queue.pop_front().unwrap_or(0)
    }
}
impl DynGen for SharedCoreGen {
    fn kind(&self) -> Kind {
        self.core.kind().rng_kind()
    }
    fn next_u32(&mut self) -> u32 {
        self.word() as u32
    }
    fn next_u64(&mut self) -> u64 {
        if self.core.kind() == CoreKind::Isaac64Core {
            self.word()
        } else {
            let lo = self.word();
            lo | (self.word() << 32)
        }
    }
    fn fill_bytes(&mut self, dest: &mut [u8]) {
        for ch in dest.chunks_mut(8) {
            let v = self.next_u64().to_le_bytes();
            ch.copy_from_slice(&v[..ch.len()]);
        }
    }
    fn boxed_clone(&self) -> Box<dyn DynGen> {
        Box::new(SharedCoreGen { core: self.core.boxed_clone(), queue: self.queue.clone() })
    }
    fn clone_from_dyn(&mut self, _src: &dyn DynGen) -> bool {
        false
    }
    fn eq_dyn(&self, _other: &dyn DynGen) -> Option<bool> {
        None
    }
    fn jump(&mut self) -> bool {
        false
    }
    fn long_jump(&mut self) -> bool {
        false
    }
    fn snapshot(&self, _fmt: SnapFmt) -> Option<Vec<u8>> {
        None
    }
    fn debug(&self) -> (String, String) {
        self.core.debug()
    }
    fn as_any(&self) -> &dyn Any {
        self
    }
}


/// Birthday search for a lossy `==` on a type whose states cannot be manufactured (HC-128: no serde, no
/// public fields): `m` generators from the seeds `seed_of(i)`, each advanced by `pre` words, every pair compared
/// with the operator. Returns the first pair that compares equal.
pub fn hc128_equal_pair(seed_of: &dyn Fn(usize) -> [u8; 32], m: usize, pre: u32) -> Result<Option<(usize, usize)>, SutFail> {
    guard(|| {
        let gens: Vec<rand_hc::Hc128Rng> = (0..m)
            .map(|i| {
                let mut g = rand_hc::Hc128Rng::from_seed(seed_of(i));
                for _ in 0..pre {
                    g.next_u32();
                }
                g
            })
            .collect();
        for i in 0..m {
            for j in i + 1..m {
                if gens[i] == gens[j] {
                    return Some((i, j));
                }
            }
        }
        None
    })
}


/// Block-by-block text comparison of two HC-128 cores with different keys: after EVERY generate() the
/// `{:?}` texts must be byte-equal (a text that depends on what one block left in the tables is visible for
/// exactly one block). Returns (blocks generated, text a, text b) at the first difference.
pub fn hc128_core_block_texts(seed_a: [u8; 32], seed_b: [u8; 32], blocks: u64) -> Result<Option<(u64, String, String)>, SutFail> {
    guard(|| {
        use std::fmt::Write;
        let mut a = rand_hc::Hc128Core::from_seed(seed_a);
        let mut b = rand_hc::Hc128Core::from_seed(seed_b);
        let mut ra: <rand_hc::Hc128Core as BlockRngCore>::Results = Default::default();
        let mut rb: <rand_hc::Hc128Core as BlockRngCore>::Results = Default::default();
        let (mut ta, mut tb) = (String::with_capacity(96), String::with_capacity(96));
        for k in 0..blocks {
            a.generate(&mut ra);
            b.generate(&mut rb);
            ta.clear();
            tb.clear();
            let _ = write!(ta, "{:?}", a);
            let _ = write!(tb, "{:?}", b);
            if ta != tb {
                return Some((k + 1, ta, tb));
            }
        }
        None
    })
}


/// The real-clock constructor as a C19 instance: `JitterRng::new()` ran when the instance was built, and the
/// only thing that can be compared about it is whether it succeeded (what it would produce is the machine's
/// business). Every output call returns that verdict.
pub struct RealClockProbe {
    pub ok: bool,
}
impl DynGen for RealClockProbe {
    fn kind(&self) -> Kind {
        Kind::Jitter
    }
    fn next_u32(&mut self) -> u32 {
        1 + self.ok as u32
    }
    fn next_u64(&mut self) -> u64 {
        1 + self.ok as u64
    }
    fn fill_bytes(&mut self, dest: &mut [u8]) {
        for b in dest.iter_mut() {
            *b = 1 + self.ok as u8;
        }
    }
    fn boxed_clone(&self) -> Box<dyn DynGen> {
        Box::new(RealClockProbe { ok: self.ok })
    }
    fn clone_from_dyn(&mut self, _src: &dyn DynGen) -> bool {
        false
    }
    fn eq_dyn(&self, _other: &dyn DynGen) -> Option<bool> {
        None
    }
    fn jump(&mut self) -> bool {
        false
    }
    fn long_jump(&mut self) -> bool {
        false
    }
    fn snapshot(&self, _fmt: SnapFmt) -> Option<Vec<u8>> {
        None
    }
    fn debug(&self) -> (String, String) {
        (String::new(), String::new())
    }
    fn as_any(&self) -> &dyn Any {
        self
    }
}


/// Seeding sweep for the Debug texts: `n` generators of one type from unrelated seeds, never used; the
/// `{:?}` text of every one must equal the text of the first (a text that reflects something the key setup
/// found in the secret tables - two equal neighbouring words: 2^-22 per seed - differs for a few seeds in
/// millions). kind: 0 = Hc128Rng, 1 = Hc128Core, 2 = IsaacRng, 3 = Isaac64Rng, 4 = XorShiftRng.
/// Returns (index, text of seed 0, text of that seed).
pub fn debug_seed_sweep(kind: u64, key: u64, n: usize) -> Result<Option<(usize, String, String)>, SutFail> {
    guard(|| {
        use std::fmt::Write;
        let seed32 = |i: usize| -> [u8; 32] {
            let mut s = [0u8; 32];
            for (k, ch) in s.chunks_mut(8).enumerate() {
                ch.copy_from_slice(&crate::prng::h2(key ^ ((k as u64) << 56), i as u64).to_le_bytes());
            }
            s
        };
        let text = |i: usize, out: &mut String| {
            out.clear();
            let s = seed32(i);
            let _ = match kind {
                0 => write!(out, "{:?}", rand_hc::Hc128Rng::from_seed(s)),
                1 => write!(out, "{:?}", rand_hc::Hc128Core::from_seed(s)),
                2 => write!(out, "{:?}", rand_isaac::IsaacRng::from_seed(s)),
                3 => write!(out, "{:?}", rand_isaac::Isaac64Rng::from_seed(s)),
                _ => {
                    let mut k = [0u8; 16];
                    k.copy_from_slice(&s[..16]);
                    write!(out, "{:?}", rand_xorshift::XorShiftRng::from_seed(k))
                }
            };
        };
        let mut first = String::new();
        text(0, &mut first);
        let mut t = String::with_capacity(first.len() + 16);
        for i in 1..n {
            text(i, &mut t);
            if t != first {
                return Some((i, first, t));
            }
        }
        None
    })
}
