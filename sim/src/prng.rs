//! The simulator's own PRNG and hash. Deliberately NOT imported from the crates under
//! test: fixed-width wrapping arithmetic only, so a seed gives the same run in every build
//! configuration and a defect in the code under test cannot perturb its own test cases.

#[inline]
pub fn mix64(mut z: u64) -> u64 {
    z = z.wrapping_add(0x9e37_79b9_7f4a_7c15);
    z = (z ^ (z >> 30)).wrapping_mul(0xbf58_476d_1ce4_e5b9);
    z = (z ^ (z >> 27)).wrapping_mul(0x94d0_49bb_1331_11eb);
    z ^ (z >> 31)
}

/// H(a, b): order-sensitive combination.
#[inline]
pub fn h2(a: u64, b: u64) -> u64 {
    mix64(mix64(a) ^ b.wrapping_mul(0xd6e8_feb8_6659_fd93).rotate_left(23))
}

pub fn hstr(s: &str) -> u64 {
    let mut h = 0xcbf2_9ce4_8422_2325u64;
    for b in s.bytes() {
        h ^= b as u64;
        h = h.wrapping_mul(0x0000_0100_0000_01b3);
    }
    mix64(h)
}

/// Incremental digest of an event log (FNV-style absorb, mix64 finish).
#[derive(Clone, Debug)]
pub struct Digest(pub u64);
impl Default for Digest {
    fn default() -> Self {
        Digest(0x1234_5678_9abc_def1)
    }
}
impl Digest {
    #[inline]
    pub fn u64(&mut self, v: u64) {
        self.0 = h2(self.0, v);
    }
    pub fn bytes(&mut self, b: &[u8]) {
        self.u64(b.len() as u64);
        let mut acc = 0u64;
        for (i, x) in b.iter().enumerate() {
            acc = (acc << 8) | *x as u64;
            if i % 8 == 7 {
                self.u64(acc);
                acc = 0;
            }
        }
        self.u64(acc);
    }
    pub fn str(&mut self, s: &str) {
        self.bytes(s.as_bytes())
    }
    pub fn finish(&self) -> u64 {
        mix64(self.0)
    }
}

/// xoshiro256** written out here (harness-private copy).
#[derive(Clone, Debug)]
pub struct Prng {
    s: [u64; 4],
}

impl Prng {
    pub fn new(seed: u64) -> Prng {
        let mut x = seed;
        let mut s = [0u64; 4];
        for w in s.iter_mut() {
            x = x.wrapping_add(0x9e37_79b9_7f4a_7c15);
            *w = mix64(x);
        }
        if s == [0; 4] {
            s[0] = 1;
        }
        Prng { s }
    }
    #[inline]
    pub fn u64(&mut self) -> u64 {
        let r = self.s[1].wrapping_mul(5).rotate_left(7).wrapping_mul(9);
        let t = self.s[1] << 17;
        self.s[2] ^= self.s[0];
        self.s[3] ^= self.s[1];
        self.s[1] ^= self.s[2];
        self.s[0] ^= self.s[3];
        self.s[2] ^= t;
        self.s[3] = self.s[3].rotate_left(45);
        r
    }
    #[inline]
    pub fn u32(&mut self) -> u32 {
        (self.u64() >> 32) as u32
    }
    /// uniform in 0..n (n > 0); slight modulo bias is irrelevant here.
    #[inline]
    pub fn below(&mut self, n: u64) -> u64 {
        debug_assert!(n > 0);
        ((self.u64() as u128 * n as u128) >> 64) as u64
    }
    #[inline]
    pub fn range(&mut self, lo: u64, hi_incl: u64) -> u64 {
        lo + self.below(hi_incl - lo + 1)
    }
    #[inline]
    pub fn chance(&mut self, num: u64, den: u64) -> bool {
        self.below(den) < num
    }
    pub fn pick<'a, T>(&mut self, xs: &'a [T]) -> &'a T {
        &xs[self.below(xs.len() as u64) as usize]
    }
    pub fn bytes(&mut self, n: usize) -> Vec<u8> {
        let mut v = Vec::with_capacity(n);
        while v.len() < n {
            let w = self.u64().to_le_bytes();
            let k = (n - v.len()).min(8);
            v.extend_from_slice(&w[..k]);
        }
        v
    }
    /// weighted choice: returns index
    pub fn weighted(&mut self, w: &[u32]) -> usize {
        let tot: u64 = w.iter().map(|x| *x as u64).sum();
        let mut r = self.below(tot.max(1));
        for (i, x) in w.iter().enumerate() {
            if r < *x as u64 {
                return i;
            }
            r -= *x as u64;
        }
        w.len() - 1
    }
    /// "Interesting" u64: edge values mixed with random ones.
    pub fn edge_u64(&mut self) -> u64 {
        match self.below(12) {
            0 => 0,
            1 => 1,
            2 => u64::MAX,
            3 => 1u64 << self.below(64),
            4 => (1u64 << self.below(64)).wrapping_sub(1),
            5 => 0u64.wrapping_sub(0x9e37_79b9_7f4a_7c15), // -PHI: first SplitMix64 output is 0
            6 => self.u32() as u64,
            7 => (self.u32() as u64) << 32,
            _ => self.u64(),
        }
    }
}
