//! A self-describing format that is NOT human-readable, built from what is in the cargo cache: the
//! `serde_json::Value` data model behind serializer / deserializer wrappers that answer
//! `is_human_readable() == false` at every level (what MessagePack, CBOR and BSON report). Code that
//! branches on `is_human_readable()` takes its compact branch here, while serde's buffering
//! deserializers (`#[serde(flatten)]`, untagged and internally tagged enums) always answer `true`.

use serde::de::{self, DeserializeSeed, Deserializer, EnumAccess, MapAccess, SeqAccess, VariantAccess, Visitor};
use serde::ser::{self, Serialize, Serializer};
use std::fmt;

// ------------------------------------------------------------------------------------------
// serializer side
// ------------------------------------------------------------------------------------------

pub struct Nhr<S>(pub S);
pub struct NhrV<'a, T: ?Sized>(pub &'a T);
pub struct NhrC<C>(C);
/// Sequence / tuple collector that honours the DECLARED length the way a length-prefixed format (MessagePack, CBOR
/// definite-length arrays, bincode-2 framing) does: such a format writes `len` as the array header and its reader takes
/// exactly `len` elements, so elements written beyond the declared length are not part of the array a reader sees.
/// When declared length == elements written (always, for a correct `Serialize`) this is the identity.
pub struct NhrL<C> {
    c: C,
    want: Option<usize>,
    n: usize,
}
impl<C> NhrL<C> {
    fn beyond_header(&mut self) -> bool {
        let b = matches!(self.want, Some(w) if self.n >= w);
        self.n += 1;
        b
    }
}

impl<T: ?Sized + Serialize> Serialize for NhrV<'_, T> {
    fn serialize<S: Serializer>(&self, s: S) -> Result<S::Ok, S::Error> {
        self.0.serialize(Nhr(s))
    }
}

macro_rules! fwd_prim {
    ($($f:ident: $t:ty),*) => { $( fn $f(self, v: $t) -> Result<Self::Ok, Self::Error> { self.0.$f(v) } )* };
}

impl<S: Serializer> Serializer for Nhr<S> {
    type Ok = S::Ok;
    type Error = S::Error;
    type SerializeSeq = NhrL<S::SerializeSeq>;
    type SerializeTuple = NhrL<S::SerializeTuple>;
    type SerializeTupleStruct = NhrL<S::SerializeTupleStruct>;
    type SerializeTupleVariant = NhrC<S::SerializeTupleVariant>;
    type SerializeMap = NhrC<S::SerializeMap>;
    type SerializeStruct = NhrC<S::SerializeStruct>;
    type SerializeStructVariant = NhrC<S::SerializeStructVariant>;

    fwd_prim!(serialize_bool: bool, serialize_i8: i8, serialize_i16: i16, serialize_i32: i32, serialize_i64: i64, serialize_i128: i128,
              serialize_u8: u8, serialize_u16: u16, serialize_u32: u32, serialize_u64: u64, serialize_u128: u128,
              serialize_f32: f32, serialize_f64: f64, serialize_char: char, serialize_str: &str, serialize_bytes: &[u8]);

    fn serialize_none(self) -> Result<Self::Ok, Self::Error> {
        self.0.serialize_none()
    }
    fn serialize_some<T: ?Sized + Serialize>(self, v: &T) -> Result<Self::Ok, Self::Error> {
        self.0.serialize_some(&NhrV(v))
    }
    fn serialize_unit(self) -> Result<Self::Ok, Self::Error> {
        self.0.serialize_unit()
    }
    fn serialize_unit_struct(self, name: &'static str) -> Result<Self::Ok, Self::Error> {
        self.0.serialize_unit_struct(name)
    }
    fn serialize_unit_variant(self, name: &'static str, idx: u32, variant: &'static str) -> Result<Self::Ok, Self::Error> {
        self.0.serialize_unit_variant(name, idx, variant)
    }
    fn serialize_newtype_struct<T: ?Sized + Serialize>(self, name: &'static str, v: &T) -> Result<Self::Ok, Self::Error> {
        self.0.serialize_newtype_struct(name, &NhrV(v))
    }
    fn serialize_newtype_variant<T: ?Sized + Serialize>(self, name: &'static str, idx: u32, variant: &'static str, v: &T) -> Result<Self::Ok, Self::Error> {
        self.0.serialize_newtype_variant(name, idx, variant, &NhrV(v))
    }
    fn serialize_seq(self, len: Option<usize>) -> Result<Self::SerializeSeq, Self::Error> {
        Ok(NhrL { c: self.0.serialize_seq(len)?, want: len, n: 0 })
    }
    fn serialize_tuple(self, len: usize) -> Result<Self::SerializeTuple, Self::Error> {
        Ok(NhrL { c: self.0.serialize_tuple(len)?, want: Some(len), n: 0 })
    }
    fn serialize_tuple_struct(self, name: &'static str, len: usize) -> Result<Self::SerializeTupleStruct, Self::Error> {
        Ok(NhrL { c: self.0.serialize_tuple_struct(name, len)?, want: Some(len), n: 0 })
    }
    fn serialize_tuple_variant(self, name: &'static str, idx: u32, variant: &'static str, len: usize) -> Result<Self::SerializeTupleVariant, Self::Error> {
        Ok(NhrC(self.0.serialize_tuple_variant(name, idx, variant, len)?))
    }
    fn serialize_map(self, len: Option<usize>) -> Result<Self::SerializeMap, Self::Error> {
        Ok(NhrC(self.0.serialize_map(len)?))
    }
    fn serialize_struct(self, name: &'static str, len: usize) -> Result<Self::SerializeStruct, Self::Error> {
        Ok(NhrC(self.0.serialize_struct(name, len)?))
    }
    fn serialize_struct_variant(self, name: &'static str, idx: u32, variant: &'static str, len: usize) -> Result<Self::SerializeStructVariant, Self::Error> {
        Ok(NhrC(self.0.serialize_struct_variant(name, idx, variant, len)?))
    }
    fn is_human_readable(&self) -> bool {
        false
    }
}

impl<C: ser::SerializeSeq> ser::SerializeSeq for NhrL<C> {
    type Ok = C::Ok;
    type Error = C::Error;
    fn serialize_element<T: ?Sized + Serialize>(&mut self, v: &T) -> Result<(), C::Error> {
        if self.beyond_header() {
            return Ok(());
        }
        self.c.serialize_element(&NhrV(v))
    }
    fn end(self) -> Result<C::Ok, C::Error> {
        self.c.end()
    }
}
impl<C: ser::SerializeTuple> ser::SerializeTuple for NhrL<C> {
    type Ok = C::Ok;
    type Error = C::Error;
    fn serialize_element<T: ?Sized + Serialize>(&mut self, v: &T) -> Result<(), C::Error> {
        if self.beyond_header() {
            return Ok(());
        }
        self.c.serialize_element(&NhrV(v))
    }
    fn end(self) -> Result<C::Ok, C::Error> {
        self.c.end()
    }
}
impl<C: ser::SerializeTupleStruct> ser::SerializeTupleStruct for NhrL<C> {
    type Ok = C::Ok;
    type Error = C::Error;
    fn serialize_field<T: ?Sized + Serialize>(&mut self, v: &T) -> Result<(), C::Error> {
        if self.beyond_header() {
            return Ok(());
        }
        self.c.serialize_field(&NhrV(v))
    }
    fn end(self) -> Result<C::Ok, C::Error> {
        self.c.end()
    }
}
impl<C: ser::SerializeTupleVariant> ser::SerializeTupleVariant for NhrC<C> {
    type Ok = C::Ok;
    type Error = C::Error;
    fn serialize_field<T: ?Sized + Serialize>(&mut self, v: &T) -> Result<(), C::Error> {
        self.0.serialize_field(&NhrV(v))
    }
    fn end(self) -> Result<C::Ok, C::Error> {
        self.0.end()
    }
}
impl<C: ser::SerializeMap> ser::SerializeMap for NhrC<C> {
    type Ok = C::Ok;
    type Error = C::Error;
    fn serialize_key<T: ?Sized + Serialize>(&mut self, k: &T) -> Result<(), C::Error> {
        self.0.serialize_key(&NhrV(k))
    }
    fn serialize_value<T: ?Sized + Serialize>(&mut self, v: &T) -> Result<(), C::Error> {
        self.0.serialize_value(&NhrV(v))
    }
    fn end(self) -> Result<C::Ok, C::Error> {
        self.0.end()
    }
}
impl<C: ser::SerializeStruct> ser::SerializeStruct for NhrC<C> {
    type Ok = C::Ok;
    type Error = C::Error;
    fn serialize_field<T: ?Sized + Serialize>(&mut self, key: &'static str, v: &T) -> Result<(), C::Error> {
        self.0.serialize_field(key, &NhrV(v))
    }
    fn end(self) -> Result<C::Ok, C::Error> {
        self.0.end()
    }
}
impl<C: ser::SerializeStructVariant> ser::SerializeStructVariant for NhrC<C> {
    type Ok = C::Ok;
    type Error = C::Error;
    fn serialize_field<T: ?Sized + Serialize>(&mut self, key: &'static str, v: &T) -> Result<(), C::Error> {
        self.0.serialize_field(key, &NhrV(v))
    }
    fn end(self) -> Result<C::Ok, C::Error> {
        self.0.end()
    }
}

// ------------------------------------------------------------------------------------------
// deserializer side
// ------------------------------------------------------------------------------------------

pub struct NhrD<D>(pub D);
struct NhrVis<V>(V);
struct NhrSeed<T>(T);
struct NhrAcc<A>(A);

macro_rules! fwd_de {
    ($($f:ident),*) => { $( fn $f<V: Visitor<'de>>(self, v: V) -> Result<V::Value, Self::Error> { self.0.$f(NhrVis(v)) } )* };
}

impl<'de, D: Deserializer<'de>> Deserializer<'de> for NhrD<D> {
    type Error = D::Error;
    fwd_de!(deserialize_any, deserialize_bool, deserialize_i8, deserialize_i16, deserialize_i32, deserialize_i64, deserialize_i128,
            deserialize_u8, deserialize_u16, deserialize_u32, deserialize_u64, deserialize_u128, deserialize_f32, deserialize_f64,
            deserialize_char, deserialize_str, deserialize_string, deserialize_bytes, deserialize_byte_buf, deserialize_option,
            deserialize_unit, deserialize_seq, deserialize_map, deserialize_identifier, deserialize_ignored_any);
    fn deserialize_unit_struct<V: Visitor<'de>>(self, name: &'static str, v: V) -> Result<V::Value, Self::Error> {
        self.0.deserialize_unit_struct(name, NhrVis(v))
    }
    fn deserialize_newtype_struct<V: Visitor<'de>>(self, name: &'static str, v: V) -> Result<V::Value, Self::Error> {
        self.0.deserialize_newtype_struct(name, NhrVis(v))
    }
    fn deserialize_tuple<V: Visitor<'de>>(self, len: usize, v: V) -> Result<V::Value, Self::Error> {
        self.0.deserialize_tuple(len, NhrVis(v))
    }
    fn deserialize_tuple_struct<V: Visitor<'de>>(self, name: &'static str, len: usize, v: V) -> Result<V::Value, Self::Error> {
        self.0.deserialize_tuple_struct(name, len, NhrVis(v))
    }
    fn deserialize_struct<V: Visitor<'de>>(self, name: &'static str, fields: &'static [&'static str], v: V) -> Result<V::Value, Self::Error> {
        self.0.deserialize_struct(name, fields, NhrVis(v))
    }
    fn deserialize_enum<V: Visitor<'de>>(self, name: &'static str, variants: &'static [&'static str], v: V) -> Result<V::Value, Self::Error> {
        self.0.deserialize_enum(name, variants, NhrVis(v))
    }
    fn is_human_readable(&self) -> bool {
        false
    }
}

macro_rules! fwd_visit {
    ($($f:ident: $t:ty),*) => { $( fn $f<E: de::Error>(self, v: $t) -> Result<Self::Value, E> { self.0.$f(v) } )* };
}

impl<'de, V: Visitor<'de>> Visitor<'de> for NhrVis<V> {
    type Value = V::Value;
    fn expecting(&self, f: &mut fmt::Formatter) -> fmt::Result {
        self.0.expecting(f)
    }
    fwd_visit!(visit_bool: bool, visit_i8: i8, visit_i16: i16, visit_i32: i32, visit_i64: i64, visit_i128: i128,
               visit_u8: u8, visit_u16: u16, visit_u32: u32, visit_u64: u64, visit_u128: u128, visit_f32: f32, visit_f64: f64,
               visit_char: char, visit_str: &str, visit_borrowed_str: &'de str, visit_string: String,
               visit_bytes: &[u8], visit_borrowed_bytes: &'de [u8], visit_byte_buf: Vec<u8>);
    fn visit_none<E: de::Error>(self) -> Result<Self::Value, E> {
        self.0.visit_none()
    }
    fn visit_unit<E: de::Error>(self) -> Result<Self::Value, E> {
        self.0.visit_unit()
    }
    fn visit_some<D: Deserializer<'de>>(self, d: D) -> Result<Self::Value, D::Error> {
        self.0.visit_some(NhrD(d))
    }
    fn visit_newtype_struct<D: Deserializer<'de>>(self, d: D) -> Result<Self::Value, D::Error> {
        self.0.visit_newtype_struct(NhrD(d))
    }
    fn visit_seq<A: SeqAccess<'de>>(self, a: A) -> Result<Self::Value, A::Error> {
        self.0.visit_seq(NhrAcc(a))
    }
    fn visit_map<A: MapAccess<'de>>(self, a: A) -> Result<Self::Value, A::Error> {
        self.0.visit_map(NhrAcc(a))
    }
    fn visit_enum<A: EnumAccess<'de>>(self, a: A) -> Result<Self::Value, A::Error> {
        self.0.visit_enum(NhrAcc(a))
    }
}

impl<'de, T: DeserializeSeed<'de>> DeserializeSeed<'de> for NhrSeed<T> {
    type Value = T::Value;
    fn deserialize<D: Deserializer<'de>>(self, d: D) -> Result<T::Value, D::Error> {
        self.0.deserialize(NhrD(d))
    }
}

impl<'de, A: SeqAccess<'de>> SeqAccess<'de> for NhrAcc<A> {
    type Error = A::Error;
    fn next_element_seed<T: DeserializeSeed<'de>>(&mut self, seed: T) -> Result<Option<T::Value>, A::Error> {
        self.0.next_element_seed(NhrSeed(seed))
    }
    fn size_hint(&self) -> Option<usize> {
        self.0.size_hint()
    }
}
impl<'de, A: MapAccess<'de>> MapAccess<'de> for NhrAcc<A> {
    type Error = A::Error;
    fn next_key_seed<K: DeserializeSeed<'de>>(&mut self, seed: K) -> Result<Option<K::Value>, A::Error> {
        self.0.next_key_seed(NhrSeed(seed))
    }
    fn next_value_seed<V: DeserializeSeed<'de>>(&mut self, seed: V) -> Result<V::Value, A::Error> {
        self.0.next_value_seed(NhrSeed(seed))
    }
    fn size_hint(&self) -> Option<usize> {
        self.0.size_hint()
    }
}
impl<'de, A: EnumAccess<'de>> EnumAccess<'de> for NhrAcc<A> {
    type Error = A::Error;
    type Variant = NhrAcc<A::Variant>;
    fn variant_seed<V: DeserializeSeed<'de>>(self, seed: V) -> Result<(V::Value, Self::Variant), A::Error> {
        let (v, var) = self.0.variant_seed(NhrSeed(seed))?;
        Ok((v, NhrAcc(var)))
    }
}
impl<'de, A: VariantAccess<'de>> VariantAccess<'de> for NhrAcc<A> {
    type Error = A::Error;
    fn unit_variant(self) -> Result<(), A::Error> {
        self.0.unit_variant()
    }
    fn newtype_variant_seed<T: DeserializeSeed<'de>>(self, seed: T) -> Result<T::Value, A::Error> {
        self.0.newtype_variant_seed(NhrSeed(seed))
    }
    fn tuple_variant<V: Visitor<'de>>(self, len: usize, v: V) -> Result<V::Value, A::Error> {
        self.0.tuple_variant(len, NhrVis(v))
    }
    fn struct_variant<V: Visitor<'de>>(self, fields: &'static [&'static str], v: V) -> Result<V::Value, A::Error> {
        self.0.struct_variant(fields, NhrVis(v))
    }
}

/// value -> bytes (the JSON text of the `Value` tree the non-human-readable serializer produced)
pub fn to_vec<T: Serialize>(v: &T) -> Result<Vec<u8>, String> {
    let tree = v.serialize(Nhr(serde_json::value::Serializer)).map_err(|e| e.to_string())?;
    serde_json::to_vec(&tree).map_err(|e| e.to_string())
}

/// bytes -> value, through a `Value` tree read by the non-human-readable deserializer
pub fn from_slice<T: de::DeserializeOwned>(bytes: &[u8]) -> Result<T, String> {
    let tree: serde_json::Value = serde_json::from_slice(bytes).map_err(|e| e.to_string())?;
    T::deserialize(NhrD(tree)).map_err(|e| e.to_string())
}
