//! A run is explicit data. The executor takes a `Spec`, never a PRNG; that is what makes
//! minimisation and replay possible. A replay file is a serialised `Spec` plus the expected
//! violation class.

use crate::gens::{CoreKind, Kind, SeedSpec, SnapFmt};
use crate::prng::{Digest, Prng};
use crate::seams::clock::ClockSpec;
use serde::{Deserialize, Serialize};
use std::collections::{BTreeMap, BTreeSet};

#[derive(Serialize, Deserialize, Clone, Debug, PartialEq)]
pub enum Op {
    U32,
    U64,
    Fill(u32),
    Jump,
    LongJump,
    /// clone the generator here (meaning depends on the scenario)
    Fork,
    /// crash point: snapshot, drop, restore (C11)
    Snap(SnapFmt),
    TimerStats(bool),
    SetRounds(u8),
    /// C16: next output call is made on a clone taken now; the clone is then dropped
    CloneThen(Box<Op>),
    /// format with Debug and compare (C17)
    Debug,
    /// `==` against the twin (C10)
    Eq,
    /// JitterRng::test_timer followed by set_rounds(result) (C14 hostile histories)
    TestTimer,
    /// like CloneThen, but the clone is made with `Clone::clone_from` into an already used
    /// generator (one that holds a pending half where the type has such a thing)
    CloneFromThen(Box<Op>),
}

impl Op {
    pub fn code(&self) -> u64 {
        match self {
            Op::U32 => 1,
            Op::U64 => 2,
            Op::Fill(_) => 3,
            Op::Jump => 4,
            Op::LongJump => 5,
            Op::Fork => 6,
            Op::Snap(_) => 7,
            Op::TimerStats(_) => 8,
            Op::SetRounds(_) => 9,
            Op::CloneThen(_) => 10,
            Op::Debug => 11,
            Op::Eq => 12,
            Op::TestTimer => 13,
            Op::CloneFromThen(_) => 14,
        }
    }
}

/// One generator instance of a multi-instance (C19) run.
#[derive(Serialize, Deserialize, Clone, Debug, PartialEq)]
pub struct Inst {
    pub kind: Kind,
    pub seed: Option<SeedSpec>,
    pub clock: Option<ClockSpec>,
    pub rounds: Option<u8>,
    pub ops: Vec<Op>,
    /// block kinds only: the instance is the public CORE, driven by its owner through the one scratch block
    /// that all cores of that type in the process share (`gens::SharedCoreGen`)
    #[serde(default)]
    pub shared_scratch: bool,
}

#[derive(Serialize, Deserialize, Clone, Debug, PartialEq, Default)]
pub struct Spec {
    pub prop: String,
    /// scenario sub-mode
    pub variant: String,
    pub kind: Option<Kind>,
    pub core: Option<CoreKind>,
    pub seed: Option<SeedSpec>,
    pub clock: Option<ClockSpec>,
    pub rounds: Option<u8>,
    /// native-width calls executed first (positions the buffer index)
    pub pre: u32,
    pub ops: Vec<Op>,
    /// secret twin (C17) / second member of a pair (C08, C10)
    pub seed2: Option<SeedSpec>,
    pub clock2: Option<ClockSpec>,
    /// scenario-specific numbers
    pub aux: Vec<u64>,
    /// C19
    pub insts: Vec<Inst>,
    /// C19 schedule: (instance, thread)
    pub sched: Vec<(u8, u8)>,
    pub threads: u8,
    /// runtime logging configuration of the process during this run: a (discarding) logger is always
    /// installed; `true` raises the `log` max level to Trace for the run, `false` leaves it Off
    #[serde(default)]
    pub logger: bool,
    /// call sites of this run: false = as written on the concrete type (inherent items win), true = as
    /// generic code resolves them (always the trait implementation); see `gens::set_call_generic`
    #[serde(default)]
    pub generic: bool,
    /// ambient thread context in which Debug texts are produced (C17, C14): 0 = plain, 1 = additionally
    /// while the thread is unwinding from an unrelated (harness-raised) panic, 2 = additionally on
    /// another thread
    #[serde(default)]
    pub ctx: u8,
    /// process history: a real-clock `JitterRng::new()` (std feature: it runs the timer test on the
    /// platform clock and fills the process-wide round-count cache) is made and dropped before the
    /// run's own generator is built; nothing it returns is logged or compared
    #[serde(default)]
    pub pre_new: bool,
    /// wall-clock seam (needs the clock shim, see /verif/shim): while an operation of the code under test
    /// runs, every reading of the real clock (std Instant / SystemTime) is this many milliseconds later than
    /// the one before; 0 = the real clock as it is
    #[serde(default)]
    pub wall_step_ms: u64,
    /// the calendar date the real clock (CLOCK_REALTIME) shows during the run: index into
    /// `engine::wallclock::DATES` (0 = today); set for runs that call the real-clock constructor
    #[serde(default)]
    pub wall_date: u8,
    /// where the run's generators live: slot 0..3 = offset 0 / 4 / 8 / 12 (modulo 16) of a 16-aligned heap
    /// block; clones go to the next slot (see `gens::Placed`)
    #[serde(default)]
    pub place: u8,
    /// with `logger`: the installed logger's own `enabled()` refuses records of the crates under test while
    /// the global max level still admits them (`log_enabled!` and the level check of `trace!` then disagree)
    #[serde(default)]
    pub logger_filter: bool,
    /// which thread executes the run: 0 = the worker's long-lived main thread, 1 = a freshly spawned unnamed
    /// thread (its thread-locals have never been touched), 2 = a freshly spawned thread with a name, 3 = a fresh
    /// thread that executes the run and then executes it once more while it exits (from the destructor of a
    /// thread-local registered before the run: per-thread state of the code under test is already destroyed)
    #[serde(default)]
    pub thread: u8,
}

#[derive(Clone, Debug, PartialEq)]
pub struct Violation {
    /// stable identifier of the oracle clause that failed, e.g. "C05/value_mismatch"
    pub class: String,
    /// identifying input / call site for the known-findings file
    pub key: String,
    pub detail: String,
    /// a smaller spec that reproduces the same violation directly (fault-enumeration scenarios)
    pub narrowed: Option<Box<Spec>>,
}

impl Violation {
    pub fn new(class: &str, key: impl Into<String>, detail: impl Into<String>) -> Violation {
        // details quote values; keep them readable when a value is a megabyte of bytes
        let mut detail: String = detail.into();
        if detail.len() > 1500 {
            let mut cut = 1400;
            while !detail.is_char_boundary(cut) {
                cut -= 1;
            }
            let total = detail.len();
            detail.truncate(cut);
            detail.push_str(&format!(" ... [{} more characters]", total - cut));
        }
        Violation { class: class.to_string(), key: key.into(), detail, narrowed: None }
    }
}

#[derive(Clone, Debug, PartialEq)]
pub enum RunEnd {
    Ok,
    /// the run does not decide the property (reason is counted), e.g. stuck clock script, or the
    /// code under test panicked in a check that is not C14
    Discard(String),
    Violation(Violation),
}

#[derive(Clone, Copy, Debug, PartialEq, Eq)]
pub enum Tier {
    Quick,
    Thorough,
}
impl Tier {
    pub fn name(self) -> &'static str {
        match self {
            Tier::Quick => "quick",
            Tier::Thorough => "thorough",
        }
    }
}

/// Per-worker statistics, merged by the parent.
#[derive(Default, Clone, Debug)]
pub struct Stats {
    /// sub-cases evaluated (>= runs; fault-enumeration scenarios evaluate many per run)
    pub evals: u64,
    pub counters: BTreeMap<String, u64>,
    /// hashes of state signatures reached (the stated measure of distinct non-trivial cases)
    pub sigs: BTreeSet<u64>,
    pub sim_time_ns: u128,
    /// event log digest of the current run
    pub log: Digest,
}

impl Stats {
    #[inline]
    pub fn count(&mut self, k: &str) {
        self.add(k, 1)
    }
    pub fn add(&mut self, k: &str, n: u64) {
        if let Some(v) = self.counters.get_mut(k) {
            *v += n;
        } else {
            self.counters.insert(k.to_string(), n);
        }
    }
    #[inline]
    pub fn sig(&mut self, parts: &[u64]) {
        let mut d = Digest::default();
        for p in parts {
            d.u64(*p);
        }
        self.sigs.insert(d.finish());
    }
    pub fn merge(&mut self, o: &Stats) {
        self.evals += o.evals;
        for (k, v) in &o.counters {
            self.add(k, *v);
        }
        for s in &o.sigs {
            self.sigs.insert(*s);
        }
        self.sim_time_ns += o.sim_time_ns;
    }
}

pub trait Scenario: Sync {
    fn id(&self) -> &'static str;
    /// "exploration" | "fault_enumeration"
    fn level(&self) -> &'static str;
    fn runs(&self, tier: Tier) -> u64;
    fn generate(&self, rng: &mut Prng, tier: Tier) -> Spec;
    fn execute(&self, spec: &Spec, st: &mut Stats) -> RunEnd;
    /// one-step smaller candidates, most aggressive first
    fn shrink(&self, spec: &Spec) -> Vec<Spec> {
        crate::minimise::generic_candidates(spec)
    }
    fn rule(&self) -> String;
    fn assumptions(&self) -> Vec<String>;
    /// real vs stub components for the evidence file
    fn components(&self) -> serde_json::Value;
    /// counters that must be non-zero for the run to count as having reached its targets
    fn required_probes(&self, _tier: Tier) -> Vec<&'static str> {
        vec![]
    }
    fn exhaustive(&self) -> bool {
        false
    }
}
