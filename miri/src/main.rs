//! C19, sub-operation overlap: free-running threads, each owning its generator instances, under a
//! scheduler the simulation controls. Run under Miri (`-Zmiri-many-seeds`, `-Zmiri-preemption-rate`):
//! Miri's scheduler is seeded and deterministic, pre-empts threads INSIDE operations and reports
//! data races. One (scenario seed, Miri seed) pair is one exactly repeatable execution.
//!
//! usage: rngmiri <scenario_seed>       exit 0 = per-instance outputs equal the alone baseline,
//!                                      exit 3 = MISMATCH line printed

#[path = "../../sim/src/prng.rs"]
#[allow(dead_code)]
mod prng;

use prng::{Digest, Prng};
use rand_core::{RngCore, SeedableRng};
use std::sync::atomic::{AtomicU64, Ordering};
use std::sync::{Arc, Barrier};

#[derive(Clone, Debug)]
enum Op {
    U32,
    U64,
    Fill(usize),
    CloneU64,
    /// (deterministic generators) clone, move the clone to a freshly spawned thread, draw there
    /// while the owner keeps drawing, join: both streams go into the digest
    CloneToThread,
}

#[derive(Clone, Debug)]
enum What {
    /// JitterRng over a private deterministic clock (key), with `rounds`
    Jitter { key: u64, rounds: u8 },
    Hc128(u64),
    Isaac(u64),
    Isaac64(u64),
    Xoshiro256pp(u64),
    XorShiftZero,
    Xoroshiro64Star(u64),
}

#[derive(Clone, Debug)]
struct Inst {
    what: What,
    ops: Vec<Op>,
}

fn run_ops<R: RngCore + Clone + Send + 'static>(mut g: R, ops: &[Op]) -> u64 {
    let mut d = Digest::default();
    for op in ops {
        match op {
            Op::U32 => d.u64(g.next_u32() as u64),
            Op::U64 => d.u64(g.next_u64()),
            Op::Fill(n) => {
                let mut b = vec![0u8; *n];
                g.fill_bytes(&mut b);
                d.bytes(&b);
            }
            Op::CloneU64 => {
                let mut c = g.clone();
                d.u64(c.next_u64());
            }
            Op::CloneToThread => {
                let mut c = g.clone();
                let h = std::thread::spawn(move || {
                    let mut v = [0u64; 3];
                    for x in v.iter_mut() {
                        *x = c.next_u64();
                    }
                    v
                });
                let own = (g.next_u32(), g.next_u64());
                let other = h.join().expect("helper thread");
                d.u64(own.0 as u64);
                d.u64(own.1);
                for x in other {
                    d.u64(x);
                }
            }
        }
    }
    d.finish()
}

/// private scripted clock: reading i is a pure function of (key, i); jittery, increasing
fn clock(key: u64) -> impl Fn() -> u64 + Send + Sync + Clone {
    let pos = Arc::new(AtomicU64::new(0));
    move || {
        let i = pos.fetch_add(1, Ordering::Relaxed);
        1_000_000u64
            .wrapping_add(i.wrapping_mul(977))
            .wrapping_add(prng::h2(key, i) % 509)
    }
}

fn run_inst(inst: &Inst) -> u64 {
    match &inst.what {
        What::Jitter { key, rounds } => {
            // every run of this instance gets a fresh clock cursor
            let mut j = rand_jitter::JitterRng::new_with_timer(clock(*key));
            j.set_rounds(*rounds);
            run_ops(j, &inst.ops)
        }
        What::Hc128(s) => run_ops(rand_hc::Hc128Rng::seed_from_u64(*s), &inst.ops),
        What::Isaac(s) => run_ops(rand_isaac::IsaacRng::seed_from_u64(*s), &inst.ops),
        What::Isaac64(s) => run_ops(rand_isaac::Isaac64Rng::seed_from_u64(*s), &inst.ops),
        What::Xoshiro256pp(s) => run_ops(rand_xoshiro::Xoshiro256PlusPlus::seed_from_u64(*s), &inst.ops),
        What::XorShiftZero => run_ops(rand_xorshift::XorShiftRng::from_seed([0; 16]), &inst.ops),
        What::Xoroshiro64Star(s) => run_ops(rand_xoshiro::Xoroshiro64Star::seed_from_u64(*s), &inst.ops),
    }
}

fn gen_ops(rng: &mut Prng, max: u64, small: bool) -> Vec<Op> {
    (0..rng.range(1, max))
        .map(|_| match rng.below(7) {
            0 | 1 => Op::U32,
            2 => Op::U64,
            3 => Op::CloneU64,
            // JitterRng clones share their (real-world) timer with the original by design, so
            // concurrent use of original and clone is only meaningful for the deterministic types
            6 if !small => Op::CloneToThread,
            _ => Op::Fill(if small { rng.range(0, 9) as usize } else { rng.range(0, 70) as usize }),
        })
        .collect()
}

fn gen_scenario(seed: u64) -> Vec<Vec<Inst>> {
    let mut rng = Prng::new(prng::h2(seed, 0xC19));
    let threads = rng.range(2, 3) as usize;
    // the scenario family rotates with the seed so that a handful of seeds covers all of them:
    //  0: a JitterRng on every thread (the collector is the only code with multi-step scratch state)
    //  1: JitterRng on one thread, block generators on the others
    //  2: deterministic generators only, seeded inside the threads (zero seeds, equal u64 seeds)
    let family = seed % 3;
    (0..threads)
        .map(|t| {
            let n = rng.range(1, 2);
            (0..n)
                .map(|k| {
                    let jitter_here = match family {
                        0 => k == 0,
                        1 => t == 0 && k == 0,
                        _ => false,
                    };
                    let what = if jitter_here {
                        What::Jitter { key: rng.u64(), rounds: rng.range(1, 2) as u8 }
                    } else {
                        match rng.below(7) {
                            0 => What::Hc128(rng.below(3)),
                            1 => What::Isaac(rng.below(3)),
                            2 => What::Isaac64(rng.below(3)),
                            3 => What::Xoshiro256pp(rng.below(2)),
                            4 => What::XorShiftZero,
                            5 => What::Xoroshiro64Star(rng.edge_u64()),
                            _ => What::Hc128(t as u64),
                        }
                    };
                    let jitter = matches!(what, What::Jitter { .. });
                    let ops = gen_ops(&mut rng, if jitter { 3 } else { 5 }, jitter);
                    Inst { what, ops }
                })
                .collect()
        })
        .collect()
}

/// Family 3: one deterministic generator shared by reference (`Sync`); every thread clones it through
/// the shared reference, concurrently, and draws from its own clone. All clones must produce what a
/// clone taken alone produces.
fn shared_reference_scenario(seed: u64) -> bool {
    fn run<R: RngCore + Clone + Send + Sync + 'static>(g: R, threads: usize, n: usize) -> bool {
        let alone: Vec<u64> = {
            let mut c = g.clone();
            (0..n).map(|_| c.next_u64()).collect()
        };
        let shared = Arc::new(g);
        let barrier = Arc::new(Barrier::new(threads));
        let hs: Vec<_> = (0..threads)
            .map(|_| {
                let (s, b) = (shared.clone(), barrier.clone());
                std::thread::spawn(move || {
                    b.wait();
                    let mut c = (*s).clone();
                    (0..n).map(|_| c.next_u64()).collect::<Vec<u64>>()
                })
            })
            .collect();
        let mut ok = true;
        for (t, h) in hs.into_iter().enumerate() {
            let v = h.join().expect("thread panicked");
            if v != alone {
                println!("MISMATCH shared-reference clone on thread {} differs from a clone taken alone", t);
                ok = false;
            }
        }
        ok
    }
    let mut rng = Prng::new(prng::h2(seed, 0xC193));
    let threads = rng.range(2, 3) as usize;
    let pre = rng.below(20);
    match rng.below(5) {
        0 => {
            let mut g = rand_hc::Hc128Rng::seed_from_u64(rng.u64());
            for _ in 0..pre {
                g.next_u32();
            }
            run(g, threads, 20)
        }
        1 => {
            let mut g = rand_isaac::IsaacRng::seed_from_u64(rng.u64());
            for _ in 0..pre {
                g.next_u32();
            }
            run(g, threads, 6)
        }
        2 => {
            let mut g = rand_isaac::Isaac64Rng::seed_from_u64(rng.u64());
            for _ in 0..pre {
                g.next_u32();
            }
            run(g, threads, 6)
        }
        3 => run(rand_xoshiro::Xoshiro512StarStar::seed_from_u64(rng.u64()), threads, 12),
        _ => run(rand_xorshift::XorShiftRng::from_seed([0; 16]), threads, 12),
    }
}

fn main() {
    let args: Vec<String> = std::env::args().collect();
    let seed: u64 = args.get(1).and_then(|s| s.parse().ok()).unwrap_or(1);
    if seed % 4 == 3 {
        if shared_reference_scenario(seed) {
            println!("ok scenario_seed={} family=shared_reference", seed);
            return;
        }
        std::process::exit(3);
    }
    let scenario = gen_scenario(seed);
    if args.iter().any(|a| a == "--print") {
        println!("{:#?}", scenario);
    }
    // baseline: every instance alone, one after the other, before any thread exists
    let alone: Vec<Vec<u64>> = scenario.iter().map(|t| t.iter().map(run_inst).collect()).collect();
    // free-running: each thread owns its instances; a barrier lines the threads up
    let barrier = Arc::new(Barrier::new(scenario.len()));
    let handles: Vec<_> = scenario
        .iter()
        .cloned()
        .map(|insts| {
            let b = barrier.clone();
            std::thread::spawn(move || {
                b.wait();
                insts.iter().map(run_inst).collect::<Vec<u64>>()
            })
        })
        .collect();
    let conc: Vec<Vec<u64>> = handles.into_iter().map(|h| h.join().expect("thread panicked")).collect();
    let mut bad = 0;
    for (t, (a, c)) in alone.iter().zip(conc.iter()).enumerate() {
        for (k, (x, y)) in a.iter().zip(c.iter()).enumerate() {
            if x != y {
                println!(
                    "MISMATCH scenario_seed={} thread={} instance={} {:?}: alone {:#x} concurrent {:#x}",
                    seed, t, k, scenario[t][k].what, x, y
                );
                bad += 1;
            }
        }
    }
    if bad > 0 {
        std::process::exit(3);
    }
    println!("ok scenario_seed={} threads={} instances={}", seed, scenario.len(), scenario.iter().map(|t| t.len()).sum::<usize>());
}
