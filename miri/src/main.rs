//! C19, sub-operation overlap: free-running threads, each owning its generator instances, under a
//! scheduler the simulation controls. Run under Miri (`-Zmiri-many-seeds`, `-Zmiri-preemption-rate`):
//! Miri's scheduler is seeded and deterministic, pre-empts threads INSIDE operations and reports
//! data races. One (scenario seed, Miri seed) pair is one exactly repeatable execution.
//!
//! usage: rngmiri <scenario_seed>       exit 0 = per-instance outputs equal the alone baseline,
//!                                      exit 3 = MISMATCH line printed

#[path = "../../sim/src/prng.rs"]
#[allow(dead_code)]
mod prng;

use prng::{Digest, Prng};
use rand_core::{RngCore, SeedableRng};
use std::sync::atomic::{AtomicUsize, Ordering};
use std::sync::{Arc, Barrier};

#[derive(Clone, Debug)]
enum Op {
    U32,
    U64,
    Fill(usize),
    CloneU64,
    /// (deterministic generators) clone, move the clone to a freshly spawned thread, draw there
    /// while the owner keeps drawing, join: both streams go into the digest
    CloneToThread,
}

#[derive(Clone, Debug)]
enum What {
    /// JitterRng over a private deterministic clock (key), with `rounds`
    Jitter { key: u64, rounds: u8 },
    Hc128(u64),
    Isaac(u64),
    Isaac64(u64),
    Xoshiro256pp(u64),
    XorShiftZero,
    Xoroshiro64Star(u64),
}

#[derive(Clone, Debug)]
struct Inst {
    what: What,
    ops: Vec<Op>,
}

fn run_ops<R: RngCore + Clone + Send + 'static>(mut g: R, ops: &[Op]) -> u64 {
    let mut d = Digest::default();
    for op in ops {
        match op {
            Op::U32 => d.u64(g.next_u32() as u64),
            Op::U64 => d.u64(g.next_u64()),
            Op::Fill(n) => {
                let mut b = vec![0u8; *n];
                g.fill_bytes(&mut b);
                d.bytes(&b);
            }
            Op::CloneU64 => {
                let mut c = g.clone();
                d.u64(c.next_u64());
            }
            Op::CloneToThread => {
                let mut c = g.clone();
                let h = std::thread::spawn(move || {
                    let mut v = [0u64; 3];
                    for x in v.iter_mut() {
                        *x = c.next_u64();
                    }
                    v
                });
                let own = (g.next_u32(), g.next_u64());
                let other = h.join().expect("helper thread");
                d.u64(own.0 as u64);
                d.u64(own.1);
                for x in other {
                    d.u64(x);
                }
            }
        }
    }
    d.finish()
}

/// private scripted clock: reading i is a pure function of (key, i); jittery, increasing
fn clock(key: u64) -> impl Fn() -> u64 + Send + Sync + Clone {
    let pos = Arc::new(AtomicUsize::new(0));
    move || {
        let i = pos.fetch_add(1, Ordering::Relaxed) as u64;
        1_000_000u64
            .wrapping_add(i.wrapping_mul(977))
            .wrapping_add(prng::h2(key, i) % 509)
    }
}

fn run_inst(inst: &Inst) -> u64 {
    match &inst.what {
        What::Jitter { key, rounds } => {
            // every run of this instance gets a fresh clock cursor
            let mut j = rand_jitter::JitterRng::new_with_timer(clock(*key));
            j.set_rounds(*rounds);
            run_ops(j, &inst.ops)
        }
        What::Hc128(s) => run_ops(rand_hc::Hc128Rng::seed_from_u64(*s), &inst.ops),
        What::Isaac(s) => run_ops(rand_isaac::IsaacRng::seed_from_u64(*s), &inst.ops),
        What::Isaac64(s) => run_ops(rand_isaac::Isaac64Rng::seed_from_u64(*s), &inst.ops),
        What::Xoshiro256pp(s) => run_ops(rand_xoshiro::Xoshiro256PlusPlus::seed_from_u64(*s), &inst.ops),
        What::XorShiftZero => run_ops(rand_xorshift::XorShiftRng::from_seed([0; 16]), &inst.ops),
        What::Xoroshiro64Star(s) => run_ops(rand_xoshiro::Xoroshiro64Star::seed_from_u64(*s), &inst.ops),
    }
}

fn gen_ops(rng: &mut Prng, max: u64, small: bool) -> Vec<Op> {
    (0..rng.range(1, max))
        .map(|_| match rng.below(7) {
            0 | 1 => Op::U32,
            2 => Op::U64,
            3 => Op::CloneU64,
            // JitterRng clones share their (real-world) timer with the original by design, so
            // concurrent use of original and clone is only meaningful for the deterministic types
            6 if !small => Op::CloneToThread,
            _ => Op::Fill(if small { rng.range(0, 9) as usize } else { rng.range(0, 70) as usize }),
        })
        .collect()
}

fn gen_scenario(seed: u64) -> Vec<Vec<Inst>> {
    let mut rng = Prng::new(prng::h2(seed, 0xC19));
    let threads = rng.range(2, 3) as usize;
    // the scenario family rotates with the seed so that a handful of seeds covers all of them:
    //  0: a JitterRng on every thread (the collector is the only code with multi-step scratch state)
    //  1: JitterRng on one thread, block generators on the others
    //  2: deterministic generators only, seeded inside the threads (zero seeds, equal u64 seeds)
    let family = seed % 3;
    (0..threads)
        .map(|t| {
            let n = rng.range(1, 2);
            (0..n)
                .map(|k| {
                    let jitter_here = match family {
                        0 => k == 0,
                        1 => t == 0 && k == 0,
                        _ => false,
                    };
                    let what = if jitter_here {
                        What::Jitter { key: rng.u64(), rounds: rng.range(1, 2) as u8 }
                    } else {
                        match rng.below(7) {
                            0 => What::Hc128(rng.below(3)),
                            1 => What::Isaac(rng.below(3)),
                            2 => What::Isaac64(rng.below(3)),
                            3 => What::Xoshiro256pp(rng.below(2)),
                            4 => What::XorShiftZero,
                            5 => What::Xoroshiro64Star(rng.edge_u64()),
                            _ => What::Hc128(t as u64),
                        }
                    };
                    let jitter = matches!(what, What::Jitter { .. });
                    let ops = gen_ops(&mut rng, if jitter { 3 } else { 5 }, jitter);
                    Inst { what, ops }
                })
                .collect()
        })
        .collect()
}

/// Family 3: one deterministic generator shared by reference (`Sync`); every thread clones it through
/// the shared reference, concurrently, and draws from its own clone. All clones must produce what a
/// clone taken alone produces.
fn shared_reference_scenario(seed: u64) -> bool {
    fn run<R: RngCore + Clone + Send + Sync + 'static>(g: R, threads: usize, n: usize) -> bool {
        let alone: Vec<u64> = {
            let mut c = g.clone();
            (0..n).map(|_| c.next_u64()).collect()
        };
        let shared = Arc::new(g);
        let barrier = Arc::new(Barrier::new(threads));
        let hs: Vec<_> = (0..threads)
            .map(|_| {
                let (s, b) = (shared.clone(), barrier.clone());
                std::thread::spawn(move || {
                    b.wait();
                    let mut c = (*s).clone();
                    (0..n).map(|_| c.next_u64()).collect::<Vec<u64>>()
                })
            })
            .collect();
        let mut ok = true;
        for (t, h) in hs.into_iter().enumerate() {
            let v = h.join().expect("thread panicked");
            if v != alone {
                println!("MISMATCH shared-reference clone on thread {} differs from a clone taken alone", t);
                ok = false;
            }
        }
        ok
    }
    let mut rng = Prng::new(prng::h2(seed, 0xC193));
    let threads = rng.range(2, 3) as usize;
    let pre = rng.below(20);
    match rng.below(5) {
        0 => {
            let mut g = rand_hc::Hc128Rng::seed_from_u64(rng.u64());
            for _ in 0..pre {
                g.next_u32();
            }
            run(g, threads, 20)
        }
        1 => {
            let mut g = rand_isaac::IsaacRng::seed_from_u64(rng.u64());
            for _ in 0..pre {
                g.next_u32();
            }
            run(g, threads, 6)
        }
        2 => {
            let mut g = rand_isaac::Isaac64Rng::seed_from_u64(rng.u64());
            for _ in 0..pre {
                g.next_u32();
            }
            run(g, threads, 6)
        }
        3 => run(rand_xoshiro::Xoshiro512StarStar::seed_from_u64(rng.u64()), threads, 12),
        _ => run(rand_xorshift::XorShiftRng::from_seed([0; 16]), threads, 12),
    }
}

// ------------------------------------------------------------------------------------------
// C14, memory safety: single-threaded histories of every generator type under Miri. A panic is
// caught by the native simulator; what only Miri sees is undefined behaviour that does NOT panic
// (an unchecked index one past a buffer, a misaligned or dangling raw-pointer access, an
// uninitialised read) - exactly what "indexes out of bounds" means once indexing is unchecked.
// usage: rngmiri c14 <first seed> <count>
// ------------------------------------------------------------------------------------------

/// a counting byte source for from_rng / try_from_rng
struct Counter(u64);
impl RngCore for Counter {
    fn next_u32(&mut self) -> u32 {
        self.next_u64() as u32
    }
    fn next_u64(&mut self) -> u64 {
        self.0 = self.0.wrapping_add(0x9e37_79b9_7f4a_7c15);
        prng::h2(self.0, 7)
    }
    fn fill_bytes(&mut self, dest: &mut [u8]) {
        for c in dest.chunks_mut(8) {
            let v = self.next_u64().to_le_bytes();
            c.copy_from_slice(&v[..c.len()]);
        }
    }
}

fn history<R: RngCore + SeedableRng + Clone>(rng: &mut Prng, block_bytes: usize, d: &mut Digest) {
    let mut g = match rng.below(4) {
        0 => {
            let mut s = R::Seed::default();
            let pat = rng.below(3);
            for (i, b) in s.as_mut().iter_mut().enumerate() {
                *b = match pat {
                    0 => 0,
                    1 => 0xff,
                    _ => (i as u8).wrapping_mul(37) ^ (rng.u64() as u8),
                };
            }
            R::from_seed(s)
        }
        1 => R::seed_from_u64(rng.edge_u64()),
        2 => R::from_rng(&mut Counter(rng.u64())),
        _ => R::try_from_rng(&mut Counter(rng.u64())).expect("infallible source"),
    };
    // walk to a position near the end of a block
    let words = (block_bytes / 4).max(2) as u64;
    for _ in 0..rng.below(words + 2) {
        d.u64(g.next_u32() as u64);
    }
    for _ in 0..rng.range(4, 14) {
        match rng.below(6) {
            0 => d.u64(g.next_u32() as u64),
            1 => d.u64(g.next_u64()),
            2 => {
                let mut c = g.clone();
                d.u64(c.next_u64());
                g.clone_from(&c);
            }
            _ => {
                let bb = block_bytes as u64;
                let n = match rng.below(5) {
                    0 => rng.below(10),
                    1 => rng.range(bb.saturating_sub(5), bb + 9),
                    2 => 2 * bb + rng.below(9),
                    3 => 0,
                    _ => rng.below(bb + 1),
                } as usize;
                // destination at every offset from an aligned allocation
                let off = rng.below(16) as usize;
                let mut buf = vec![0xA5u8; n + 16];
                g.fill_bytes(&mut buf[off..off + n]);
                d.bytes(&buf[off..off + n]);
            }
        }
    }
}

macro_rules! jumps {
    ($t:ty, $rng:expr, $d:expr) => {{
        let mut g = <$t>::seed_from_u64($rng.u64());
        g.jump();
        $d.u64(g.next_u64());
        g.long_jump();
        $d.u64(g.next_u64());
    }};
}

fn c14_scenario(seed: u64) -> u64 {
    use rand_xoshiro::*;
    let mut rng = Prng::new(prng::h2(seed, 0xC14));
    let mut d = Digest::default();
    // four of the twenty types per scenario, rotating with the seed
    for k in 0..4 {
        match (seed * 4 + k) % 20 {
            0 => history::<SplitMix64>(&mut rng, 8, &mut d),
            1 => history::<Xoroshiro64Star>(&mut rng, 8, &mut d),
            2 => history::<Xoroshiro64StarStar>(&mut rng, 8, &mut d),
            3 => history::<Xoroshiro128Plus>(&mut rng, 8, &mut d),
            4 => history::<Xoroshiro128PlusPlus>(&mut rng, 8, &mut d),
            5 => history::<Xoroshiro128StarStar>(&mut rng, 8, &mut d),
            6 => history::<Xoshiro128Plus>(&mut rng, 8, &mut d),
            7 => history::<Xoshiro128PlusPlus>(&mut rng, 8, &mut d),
            8 => history::<Xoshiro128StarStar>(&mut rng, 8, &mut d),
            9 => history::<Xoshiro256Plus>(&mut rng, 8, &mut d),
            10 => history::<Xoshiro256PlusPlus>(&mut rng, 8, &mut d),
            11 => history::<Xoshiro256StarStar>(&mut rng, 8, &mut d),
            12 => history::<Xoshiro512Plus>(&mut rng, 8, &mut d),
            13 => history::<Xoshiro512PlusPlus>(&mut rng, 8, &mut d),
            14 => history::<Xoshiro512StarStar>(&mut rng, 8, &mut d),
            15 => history::<rand_xorshift::XorShiftRng>(&mut rng, 8, &mut d),
            16 => history::<rand_hc::Hc128Rng>(&mut rng, 64, &mut d),
            17 => history::<rand_isaac::IsaacRng>(&mut rng, 1024, &mut d),
            18 => history::<rand_isaac::Isaac64Rng>(&mut rng, 2048, &mut d),
            _ => {
                // JitterRng over a private scripted clock: one or two collections, halves, a clone
                let mut j = rand_jitter::JitterRng::new_with_timer(clock(rng.u64()));
                j.set_rounds(rng.range(1, 2) as u8);
                d.u64(j.next_u32() as u64);
                d.u64(j.next_u32() as u64);
                let mut c = j.clone();
                let mut b = [0u8; 11];
                c.fill_bytes(&mut b[rng.below(3) as usize..]);
                d.bytes(&b);
                d.u64(j.timer_stats(true) as u64);
            }
        }
    }
    match seed % 5 {
        0 => jumps!(Xoshiro256PlusPlus, rng, d),
        1 => jumps!(Xoshiro512StarStar, rng, d),
        2 => jumps!(Xoroshiro128PlusPlus, rng, d),
        3 => jumps!(Xoshiro128StarStar, rng, d),
        _ => jumps!(Xoshiro256Plus, rng, d),
    }
    d.finish()
}

fn main() {
    let args: Vec<String> = std::env::args().collect();
    if args.get(1).map(|s| s.as_str()) == Some("c14") {
        let first: u64 = args.get(2).and_then(|s| s.parse().ok()).unwrap_or(0);
        let count: u64 = args.get(3).and_then(|s| s.parse().ok()).unwrap_or(5);
        for s in first..first + count {
            let dg = c14_scenario(s);
            println!("ok c14 scenario_seed={} digest={:#x}", s, dg);
        }
        return;
    }
    let seed: u64 = args.get(1).and_then(|s| s.parse().ok()).unwrap_or(1);
    if seed % 4 == 2 {
        // Family "keying race": every thread keys fresh block generators from its own distinct seeds at the same
        // moment (the expensive key schedules are where a process-wide cache would sit); afterwards, with the
        // threads gone, the same seeds are keyed again alone and must give what they gave before the threads.
        let mut rng = Prng::new(prng::h2(seed, 0xC192));
        let threads = rng.range(2, 3) as usize;
        let per = rng.range(2, 3) as usize;
        let seeds: Vec<Vec<(u8, u64)>> = (0..threads).map(|_| (0..per).map(|_| (rng.below(3) as u8, rng.u64())).collect()).collect();
        fn first_words(kind: u8, s: u64) -> [u64; 3] {
            match kind {
                0 => {
                    let mut g = rand_hc::Hc128Rng::seed_from_u64(s);
                    [g.next_u64(), g.next_u64(), g.next_u64()]
                }
                1 => {
                    let mut g = rand_isaac::IsaacRng::seed_from_u64(s);
                    [g.next_u64(), g.next_u64(), g.next_u64()]
                }
                _ => {
                    let mut k = [0u8; 32];
                    k[..8].copy_from_slice(&s.to_le_bytes());
                    let mut g = rand_hc::Hc128Rng::from_seed(k);
                    [g.next_u64(), g.next_u64(), g.next_u64()]
                }
            }
        }
        let before: Vec<Vec<[u64; 3]>> = seeds.iter().map(|t| t.iter().map(|(k, s)| first_words(*k, *s)).collect()).collect();
        let barrier = Arc::new(Barrier::new(threads));
        let hs: Vec<_> = seeds
            .iter()
            .cloned()
            .map(|mine| {
                let b = barrier.clone();
                std::thread::spawn(move || {
                    b.wait();
                    mine.iter().map(|(k, s)| first_words(*k, *s)).collect::<Vec<_>>()
                })
            })
            .collect();
        let during: Vec<Vec<[u64; 3]>> = hs.into_iter().map(|h| h.join().expect("thread panicked")).collect();
        let after: Vec<Vec<[u64; 3]>> = seeds.iter().map(|t| t.iter().map(|(k, s)| first_words(*k, *s)).collect()).collect();
        let mut bad = 0;
        for t in 0..threads {
            for k in 0..per {
                if during[t][k] != before[t][k] || after[t][k] != before[t][k] {
                    println!(
                        "MISMATCH scenario_seed={} thread={} instance={} keyed from {:?}: alone {:x?}, while the other threads were keying {:x?}, alone afterwards {:x?}",
                        seed, t, k, seeds[t][k], before[t][k], during[t][k], after[t][k]
                    );
                    bad += 1;
                }
            }
        }
        if bad > 0 {
            std::process::exit(3);
        }
        println!("ok scenario_seed={} family=keying_race", seed);
        return;
    }
    if seed % 4 == 3 {
        if shared_reference_scenario(seed) {
            println!("ok scenario_seed={} family=shared_reference", seed);
            return;
        }
        std::process::exit(3);
    }
    let scenario = gen_scenario(seed);
    if args.iter().any(|a| a == "--print") {
        println!("{:#?}", scenario);
    }
    // baseline: every instance alone, one after the other, before any thread exists
    let alone: Vec<Vec<u64>> = scenario.iter().map(|t| t.iter().map(run_inst).collect()).collect();
    // free-running: each thread owns its instances; a barrier lines the threads up
    let barrier = Arc::new(Barrier::new(scenario.len()));
    let handles: Vec<_> = scenario
        .iter()
        .cloned()
        .map(|insts| {
            let b = barrier.clone();
            std::thread::spawn(move || {
                b.wait();
                insts.iter().map(run_inst).collect::<Vec<u64>>()
            })
        })
        .collect();
    let conc: Vec<Vec<u64>> = handles.into_iter().map(|h| h.join().expect("thread panicked")).collect();
    let mut bad = 0;
    for (t, (a, c)) in alone.iter().zip(conc.iter()).enumerate() {
        for (k, (x, y)) in a.iter().zip(c.iter()).enumerate() {
            if x != y {
                println!(
                    "MISMATCH scenario_seed={} thread={} instance={} {:?}: alone {:#x} concurrent {:#x}",
                    seed, t, k, scenario[t][k].what, x, y
                );
                bad += 1;
            }
        }
    }
    // and once more alone, now that the threads are gone: whatever they left behind in the process (a
    // cache filled by two racing writers, a flag) must not change what the same instances do afterwards
    let after: Vec<Vec<u64>> = scenario.iter().map(|t| t.iter().map(run_inst).collect()).collect();
    for (t, (a, c)) in alone.iter().zip(after.iter()).enumerate() {
        for (k, (x, y)) in a.iter().zip(c.iter()).enumerate() {
            if x != y {
                println!(
                    "MISMATCH scenario_seed={} thread={} instance={} {:?}: alone before the threads {:#x}, alone after them {:#x}",
                    seed, t, k, scenario[t][k].what, x, y
                );
                bad += 1;
            }
        }
    }
    if bad > 0 {
        std::process::exit(3);
    }
    println!("ok scenario_seed={} threads={} instances={}", seed, scenario.len(), scenario.iter().map(|t| t.len()).sum::<usize>());
}
