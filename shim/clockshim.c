/* Wall-clock seam for the simulator (LD_PRELOAD).
 *
 * The crates under test may read the real clock through std (Instant / SystemTime ->
 * clock_gettime). This shim interposes clock_gettime so that the simulator decides how much
 * "real" time passes between two readings made by the code under test:
 *
 *   verif_clock_step(ns)   ns > 0: from now on every clock_gettime call advances an offset by
 *                                  `ns` and returns real time + offset (time flies);
 *                          ns = 0: readings are the unmodified real clock again.
 *
 * The simulator switches the step on only while an operation of the code under test runs and
 * off again before its own timers (wall-clock caps, watchdogs) look at the clock, so each of the
 * two sees a monotonic clock. Without a call to verif_clock_step the shim changes nothing.
 */
#define _GNU_SOURCE
#include <dlfcn.h>
#include <time.h>

static int (*real_clock_gettime)(clockid_t, struct timespec *);
static volatile long long step_ns;
static volatile long long offset_ns;

void verif_clock_step(long long ns) { step_ns = ns; }

int clock_gettime(clockid_t id, struct timespec *ts) {
    if (!real_clock_gettime) {
        real_clock_gettime = (int (*)(clockid_t, struct timespec *))dlsym(RTLD_NEXT, "clock_gettime");
    }
    int r = real_clock_gettime(id, ts);
    long long step = step_ns;
    if (r == 0 && step > 0 &&
        (id == CLOCK_MONOTONIC || id == CLOCK_REALTIME || id == CLOCK_MONOTONIC_RAW || id == CLOCK_BOOTTIME)) {
        long long off = __sync_add_and_fetch(&offset_ns, step);
        long long ns = (long long)ts->tv_nsec + off % 1000000000LL;
        ts->tv_sec += off / 1000000000LL + ns / 1000000000LL;
        ts->tv_nsec = ns % 1000000000LL;
    }
    return r;
}
