/* Wall-clock seam for the simulator (LD_PRELOAD).
 *
 * The crates under test may read the real clock through std (Instant / SystemTime ->
 * clock_gettime). This shim interposes clock_gettime so that the simulator decides how much
 * "real" time passes between two readings made by the code under test:
 *
 *   verif_clock_step(ns)   ns > 0: from now on every clock_gettime call advances an offset by
 *                                  `ns` and returns real time + offset (time flies);
 *                          ns = 0: readings are the unmodified real clock again.
 *
 * The simulator switches the step on only while an operation of the code under test runs and
 * off again before its own timers (wall-clock caps, watchdogs) look at the clock, so each of the
 * two sees a monotonic clock. Without a call to verif_clock_step the shim changes nothing.
 *
 *   verif_clock_date(secs) secs > 0: from now on CLOCK_REALTIME reads as if the call had been made
 *                                  `secs` seconds after the epoch (the system's calendar date is
 *                                  somewhere else: 1970 on a board without a battery, or centuries
 *                                  ahead); the monotonic clocks are untouched;
 *                          secs = 0: the real date again.
 */
#define _GNU_SOURCE
#include <dlfcn.h>
#include <time.h>

static int (*real_clock_gettime)(clockid_t, struct timespec *);
static volatile long long step_ns;
static volatile long long offset_ns;

static volatile long long date_off_s;

void verif_clock_step(long long ns) { step_ns = ns; }

void verif_clock_date(long long secs) {
    if (!real_clock_gettime) {
        real_clock_gettime = (int (*)(clockid_t, struct timespec *))dlsym(RTLD_NEXT, "clock_gettime");
    }
    struct timespec now;
    if (secs > 0 && real_clock_gettime(CLOCK_REALTIME, &now) == 0) {
        date_off_s = secs - (long long)now.tv_sec;
    } else {
        date_off_s = 0;
    }
}

int clock_gettime(clockid_t id, struct timespec *ts) {
    if (!real_clock_gettime) {
        real_clock_gettime = (int (*)(clockid_t, struct timespec *))dlsym(RTLD_NEXT, "clock_gettime");
    }
    int r = real_clock_gettime(id, ts);
    if (r == 0 && id == CLOCK_REALTIME && date_off_s != 0) {
        ts->tv_sec += date_off_s;
    }
    long long step = step_ns;
    if (r == 0 && step > 0 &&
        (id == CLOCK_MONOTONIC || id == CLOCK_REALTIME || id == CLOCK_MONOTONIC_RAW || id == CLOCK_BOOTTIME)) {
        long long off = __sync_add_and_fetch(&offset_ns, step);
        long long ns = (long long)ts->tv_nsec + off % 1000000000LL;
        ts->tv_sec += off / 1000000000LL + ns / 1000000000LL;
        ts->tv_nsec = ns % 1000000000LL;
    }
    return r;
}
